(* Executable model of allele detection (property C06):
     whatshap/_variants.pyx : _iterate_cigar, _detect_alleles, _detect_alleles_match/_insertion/_deletion
     whatshap/variants.py   : ReadSetReader.read, _usable_alignments, _alignments_to_reads,
                              detect_alleles_by_alignment, realign (plain edit-distance mode, which is
                              the default: affine=False, use_kmerald=False, overhang=10),
                              split_cigar_left/right, cigar_prefix_length, detect_non_overlapping_variants,
                              build_var_progress, VariantProgress/AlleleProgress, _group_reads,
                              create_read_from_group
     whatshap/vcf.py        : BiallelicVcfVariant.normalized
   and the executable specification side (what an error-free read must / must not report).
   Model only: no lemmas here.

   Bases are byte values (Z).  Positions, lengths and indices are nat (the harness keeps references
   short).  Variants are biallelic (one ALT); multi-ALT records and `restricted_genotypes` are not
   modelled.  Preconditions under which the model is the code: variants sorted by strictly
   increasing position (`read` asserts uniqueness; VcfReader delivers them sorted), and the sum of the
   query-consuming CIGAR lengths equals the length of the query sequence (so that no IndexError can
   occur; an out-of-range base reads as -1 here).  AssertionErrors that `realign` can raise are
   modelled as the error value `None` of the outer option. *)
From Coq Require Import List Arith Bool ZArith.
From WH.Model Require Import EditDist.
Import ListNotations.

(* MIDNSHP=X  <->  012345678 *)
Inductive cop := OpM | OpI | OpD | OpN | OpS | OpH | OpP | OpEQ | OpX.
Definition cigar := list (cop * nat).

(* The rules found defective by the correspondence check, each switchable to its repair.  All six have been repaired
   in /repo (fix: commits 8735279, 7e88262, ad24a2d, 064e8b6, 9cec2b4, 22e7aa7); `original_rules` keeps the code as it was, for
   the `_refuted` witness theorems; `current_rules` is the code as it is now (= repaired_rules).
     r_skip_consumed   cigar_prefix_length at a reference skip (N): false = the code as it was (reports the *requested*
                       number of reference bases), true = the code now (reports the bases actually consumed,
                       like at the end of the read)
     r_ins_left_flank  _detect_alleles, insertion variant (empty normalised REF) located exactly at the first
                       base of an aligned block (read start / after N): false = the code as it was (queues it, the empty
                       REF allele resolves at once), true = the code now (skips it: the junction is not covered)
     r_ins_span        _detect_alleles at an I operation queues every insertion variant located less than
                       `length` reference bases downstream (`ref_end = ref_pos + length` although I consumes no
                       reference): false = the code as it was, true = the code now (only variants at ref_pos itself)
     r_distance        AlignedRead.distance: false = the code as it was, max(other.end - self.start, other.start - self.end, 0),
                       which is the reference span for the alignment itself (a primary alignment longer than the
                       distance threshold drops out of its own group and loses all alleles) and 0 for any alignment
                       to the left; true = the code now: the gap max(other.start - self.end, self.start - other.end, 0)
     r_pair_keep_mate  create_read_from_group: false = the code as it was (drops every alignment whose strand differs
                       from the last primary one, i.e. one mate of every FR pair), true = the code now (the strand
                       filter applies to supplementary alignments only) *)
(*   r_ins_flank_at_ins  like r_ins_left_flank, but for an aligned block that BEGINS with an insertion operation (read
                       starting inside an insertion, or N followed by I): false = the code as it was (queues the insertion variant
                       at that I operation; a partial insertion does not match, the empty REF allele is reported),
                       true = the code now (skips it; fix: 22e7aa7). *)
(*   r_sym_noref       detect_non_overlapping_variants (reference-free path): false = the code as it was (a symbolic ALT such
                       as <DEL> is taken as literal text, i.e. a 4-base insertion: every spanning read is called REF),
                       true = the code now (fix b8437fb: symbolic records are left out, as re-alignment does) *)
Record rules := mkRules { r_skip_consumed : bool; r_ins_left_flank : bool; r_pair_keep_mate : bool;
                          r_ins_span : bool; r_distance : bool; r_ins_flank_at_ins : bool; r_sym_noref : bool }.
Definition original_rules := mkRules false false false false false false false.
Definition current_rules := mkRules true true true true true true true.
Definition repaired_rules := mkRules true true true true true true true.
(* all rules repaired except number k *)
Definition all_but (k : nat) : rules :=
  mkRules (negb (k =? 0)) (negb (k =? 1)) (negb (k =? 2)) (negb (k =? 3)) (negb (k =? 4)) (negb (k =? 5)) (negb (k =? 6)).

Record variant := mkVar { vpos : nat; vref : list Z; valt : list Z }.

Definition is_match (o : cop) : bool := match o with OpM | OpEQ | OpX => true | _ => false end.

(* python slice l[a:b] for 0 <= a *)
Definition slice {A} (l : list A) (a b : nat) : list A := firstn (b - a) (skipn a l).

(* variants with their index into the caller's list *)
Definition ivar := (nat * variant)%type.
Fixpoint index_from {A} (k : nat) (l : list A) : list (nat * A) :=
  match l with [] => [] | x :: r => (k, x) :: index_from (S k) r end.

(* `while j < n and variants[j].position < lim: j += 1` : (passed over, remaining) *)
Fixpoint span_lt (vs : list ivar) (lim : nat) : list ivar * list ivar :=
  match vs with
  | [] => ([], [])
  | jv :: r => if vpos (snd jv) <? lim then let (a, b) := span_lt r lim in (jv :: a, b) else ([], vs)
  end.
Definition skip_lt (vs : list ivar) (lim : nat) : list ivar := snd (span_lt vs lim).

(* ------------------------------------------------------------------------------------------------
   _iterate_cigar: yields (index, i, consumed, query_pos) *)
Definition cyield := (nat * nat * nat * nat)%type.

Fixpoint iter_cigar (cig : cigar) (i : nat) (vs : list ivar) (rp qp : nat) : list cyield :=
  match cig with
  | [] => []
  | (op, len) :: cig' =>
      match op with
      | OpM | OpEQ | OpX =>
          let (a, rest) := span_lt vs (rp + len) in
          map (fun jv : ivar => (fst jv, i, vpos (snd jv) - rp, qp + (vpos (snd jv) - rp))) a
          ++ iter_cigar cig' (S i) rest (rp + len) (qp + len)
      | OpI =>
          match vs with
          | jv :: rest =>
              if vpos (snd jv) =? rp
              then (fst jv, i, 0, qp) :: iter_cigar cig' (S i) rest rp (qp + len)
              else iter_cigar cig' (S i) vs rp (qp + len)
          | [] => iter_cigar cig' (S i) vs rp (qp + len)
          end
      | OpD =>
          let (a, rest) := span_lt vs (rp + len) in
          map (fun jv : ivar => (fst jv, i, vpos (snd jv) - rp, qp)) a
          ++ iter_cigar cig' (S i) rest (rp + len) qp
      | OpN => iter_cigar cig' (S i) (skip_lt vs (rp + len)) (rp + len) qp
      | OpS => iter_cigar cig' (S i) vs rp (qp + len)
      | OpH | OpP => iter_cigar cig' (S i) vs rp qp
      end
  end.

(* _iterate_cigar(variants, j, bam_read, cigartuples); vs = the indexed variants from j on *)
Definition iterate_cigar (vs : list ivar) (start : nat) (cig : cigar) : list cyield :=
  iter_cigar cig 0 (skip_lt vs start) start 0.

(* ------------------------------------------------------------------------------------------------
   split_cigar_left / split_cigar_right / cigar_prefix_length *)
Definition split_left (cig : cigar) (i consumed : nat) : cigar :=
  match nth_error cig i with
  | Some (op, _) => (if 0 <? consumed then [(op, consumed)] else []) ++ rev (firstn i cig)
  | None => []
  end.
Definition split_right (cig : cigar) (i consumed : nat) : cigar :=
  match nth_error cig i with
  | Some (op, len) => (if consumed <? len then [(op, len - consumed)] else []) ++ skipn (S i) cig
  | None => []
  end.

(* returns Some (reference_bases, query_bases); None = AssertionError ("unknown CIGAR operator" for P,
   or the final `assert ref_pos < reference_bases`) *)
Fixpoint prefix_len (R : rules) (cig : cigar) (want rp qp : nat) : option (nat * nat) :=
  match cig with
  | [] => if rp <? want then Some (rp, qp) else None
  | (op, len) :: cig' =>
      match op with
      | OpM | OpEQ | OpX =>
          if want <=? rp + len then Some (want, qp + len + want - (rp + len))
          else prefix_len R cig' want (rp + len) (qp + len)
      | OpD => if want <=? rp + len then Some (want, qp) else prefix_len R cig' want (rp + len) qp
      | OpI => prefix_len R cig' want rp (qp + len)
      | OpS | OpH => prefix_len R cig' want rp qp
      | OpN => Some (if r_skip_consumed R then rp else want, qp)
      | OpP => None
      end
  end.
Definition cigar_prefix_length (R : rules) (cig : cigar) (want : nat) : option (nat * nat) := prefix_len R cig want 0 0.

(* ------------------------------------------------------------------------------------------------
   realign, plain edit-distance mode.  Outer option: None = AssertionError.
   Inner option: the detected allele (0 = REF, 1 = ALT) or None = "cannot decide". *)
Definition edist (s t : list Z) : nat := edit_distance Z.eqb s t (-1)%Z.
Definition LT : Z := 60%Z.   (* '<' : symbolic ALT *)

Definition is_symbolic (v : variant) : bool :=
  match valt v with c :: _ => Z.eqb c LT | [] => false end.

(* the (query window, padded REF, padded ALT) triple built by realign *)
Definition windows (R : rules) (reference : list Z) (overhang : nat) (v : variant) (cig : cigar) (query : list Z)
           (i consumed qpos : nat) : option (list Z * list Z * list Z) :=
  match cigar_prefix_length R (split_left cig i consumed) overhang,
        cigar_prefix_length R (split_right cig i consumed) (length (vref v) + overhang) with
  | Some (lr, lq), Some (rr, rq) =>
      (* assert variant.position - left_ref_bases >= 0; assert variant.position + right_ref_bases <= len(reference) *)
      if (lr <=? vpos v) && (vpos v + rr <=? length reference) then
        let q := slice query (qpos - lq) (qpos + rq) in
        let left_pad := slice reference (vpos v - lr) (vpos v) in
        let right_pad := slice reference (vpos v + length (vref v)) (vpos v + rr) in
        let pref := slice reference (vpos v - lr) (vpos v + rr) in
        Some (q, pref, left_pad ++ valt v ++ right_pad)
      else None
  | _, _ => None
  end.

(* distances.sort(key=distance) is stable; `distances[0][1] < distances[1][1]` decides *)
Definition decide (d0 d1 : nat) : option nat :=
  if d0 <? d1 then Some 0 else if d1 <? d0 then Some 1 else None.

Definition realign (R : rules) (reference : list Z) (overhang : nat) (v : variant) (cig : cigar) (query : list Z)
           (i consumed qpos : nat) : option (option nat) :=
  if is_symbolic v then Some None else
  match windows R reference overhang v cig query i consumed qpos with
  | Some (q, pref, palt) => Some (decide (edist q pref) (edist q palt))
  | None => None
  end.

(* detected allele of one alignment: (index into variants, allele, quality) *)
Definition det := (nat * nat * nat)%type.

(* detect_alleles_by_alignment: None = an AssertionError escaped from realign *)
Fixpoint realign_all (R : rules) (reference : list Z) (overhang : nat) (variants : list variant) (cig : cigar)
         (query : list Z) (ys : list cyield) : option (list det) :=
  match ys with
  | [] => Some []
  | (j, i, consumed, qpos) :: ys' =>
      match nth_error variants j with
      | None => None                               (* unreachable: j comes from the variant list *)
      | Some v =>
          match realign R reference overhang v cig query i consumed qpos with
          | None => None
          | Some r =>
              match realign_all R reference overhang variants cig query ys' with
              | None => None
              | Some rest =>
                  Some (match r with Some a => (j, a, 30) :: rest | None => rest end)
              end
          end
      end
  end.

Definition detect_by_alignment (R : rules) (reference : list Z) (overhang : nat) (variants : list variant)
           (start : nat) (cig : cigar) (query : list Z) : option (list det) :=
  match cig with
  | [] => Some []                                  (* if not cigartuples: return *)
  | _ => realign_all R reference overhang variants cig query
           (iterate_cigar (index_from 0 variants) start cig)
  end.

(* ------------------------------------------------------------------------------------------------
   reference-free path *)

(* BiallelicVcfVariant.normalized: strip common suffix, then common prefix (position moves) *)
Fixpoint strip_pre (p : nat) (r a : list Z) : nat * list Z * list Z :=
  match r, a with
  | x :: r', y :: a' => if Z.eqb x y then strip_pre (S p) r' a' else (p, r, a)
  | _, _ => (p, r, a)
  end.
Definition normalized (v : variant) : variant :=
  let '(_, rr, ra) := strip_pre 0 (rev (vref v)) (rev (valt v)) in
  let '(p, r, a) := strip_pre (vpos v) (rev rr) (rev ra) in
  mkVar p r a.

(* detect_non_overlapping_variants: the valid (non-conflicting) indices.
   skip = Some deletion_end while the inner `while variants[j+1].position < deletion_end` runs *)
Fixpoint non_overlapping (sym : bool) (vs : list ivar) (seen : list nat) (skip : option nat) : list nat :=
  match vs with
  | [] => []
  | (j, v) :: rest =>
      if match skip with Some d => vpos v <? d | None => false end
      then non_overlapping sym rest seen skip
      else if existsb (Nat.eqb (vpos v)) seen then non_overlapping sym rest seen None
      else if sym && is_symbolic v then non_overlapping sym rest (vpos v :: seen) None   (* rule r_sym_noref *)
      else if length (valt v) <? length (vref v) then
        let d := vpos v + length (vref v) in
        match rest with
        | (_, v') :: _ =>
            if vpos v' <? d then non_overlapping sym rest (vpos v :: seen) (Some d)
            else j :: non_overlapping sym rest (vpos v :: seen) None
        | [] => [j]
        end
      else j :: non_overlapping sym rest (vpos v :: seen) None
  end.

(* AlleleProgress; progress = -1 marks a failed allele *)
Record aprog := mkAP { progress : Z; alen : nat; quality : nat;
                       matched : nat; match_target : nat;
                       inserted : nat; insert_target : nat;
                       deleted : nat; delete_target : nat }.
Record vprog := mkVP { vid : nat; qstart : nat; alleles : list aprog }.

Definition new_allele (m i d : nat) : aprog := mkAP 0 (m + i + d) 0 0 m 0 i 0 d.

(* build_var_progress *)
Definition build_var_progress (v : variant) (j : nat) : vprog :=
  let rl := length (vref v) in
  let al := length (valt v) in
  mkVP j 0 [new_allele rl 0 0; new_allele (Nat.min rl al) (al - rl) (rl - al)].

Definition reset_allele (a : aprog) : aprog :=
  mkAP 0 (alen a) 0 0 (match_target a) 0 (insert_target a) 0 (delete_target a).
Definition reset (e : vprog) (qs : nat) : vprog := mkVP (vid e) qs (map reset_allele (alleles e)).

Definition base_at (s : list Z) (k : nat) : Z := nth k s (-1)%Z.
Definition get_allele (v : variant) (i : nat) : list Z := match i with 0 => vref v | _ => valt v end.

(* _detect_alleles_match, one allele.  qp = query_start + matched + inserted is computed ONCE before
   the loop in the code and not advanced inside it (faithfully reproduced). *)
Fixpoint match_loop (fuel : nat) (query quals allele : list Z) (qp : nat) (a : aprog) (consumed len : nat)
  : aprog * nat :=
  match fuel with
  | 0 => (a, consumed)
  | S fuel' =>
      if (matched a <? match_target a) && (consumed <? len) then
        if Z.eqb (base_at query qp) (base_at allele (matched a + inserted a)) then
          let q := match quals with [] => 30 | _ => Z.to_nat (nth qp quals 0%Z) end in
          match_loop fuel' query quals allele qp
            (mkAP (progress a + 1) (alen a) (quality a + q) (S (matched a)) (match_target a)
                  (inserted a) (insert_target a) (deleted a) (delete_target a))
            (S consumed) len
        else (a, consumed)
      else (a, consumed)
  end.

Definition fail_allele (a : aprog) : aprog :=
  mkAP (-1) (alen a) (quality a) (matched a) (match_target a) (inserted a) (insert_target a)
       (deleted a) (delete_target a).

Definition match_allele (query quals : list Z) (v : variant) (qs op_start len : nat) (i : nat) (a : aprog) : aprog :=
  if Z.ltb (progress a) 0 then a else
  let '(a', consumed) := match_loop len query quals (get_allele v i) (qs + matched a + inserted a) a op_start len in
  if (consumed <? len) && Z.ltb (progress a') (Z.of_nat (alen a')) then fail_allele a' else a'.

(* _detect_alleles_insertion, one allele *)
Fixpoint ins_loop (fuel : nat) (query allele : list Z) (qs : nat) (a : aprog) (consumed len : nat) : aprog * nat :=
  match fuel with
  | 0 => (a, consumed)
  | S fuel' =>
      if (inserted a <? insert_target a) && (consumed <? len) then
        if Z.eqb (base_at query (qs + matched a + inserted a)) (base_at allele (matched a + inserted a)) then
          ins_loop fuel' query allele qs
            (mkAP (progress a + 1) (alen a) (quality a + 30) (matched a) (match_target a)
                  (S (inserted a)) (insert_target a) (deleted a) (delete_target a))
            (S consumed) len
        else (a, S consumed)
      else (a, consumed)
  end.

Definition ins_allele (query : list Z) (v : variant) (qs len : nat) (i : nat) (a : aprog) : aprog :=
  if Z.ltb (progress a) 0 then a else
  let '(a', consumed) := ins_loop len query (get_allele v i) qs a 0 len in
  if (consumed <? len) && Z.ltb 0 (progress a') && Z.ltb (progress a') (Z.of_nat (alen a'))
  then fail_allele a' else a'.

(* _detect_alleles_deletion, one allele *)
Fixpoint del_loop (fuel : nat) (a : aprog) (consumed len : nat) : aprog * nat :=
  match fuel with
  | 0 => (a, consumed)
  | S fuel' =>
      if (deleted a <? delete_target a) && (consumed <? len) then
        del_loop fuel'
          (mkAP (progress a + 1) (alen a) (quality a + 30) (matched a) (match_target a)
                (inserted a) (insert_target a) (S (deleted a)) (delete_target a))
          (S consumed) len
      else (a, consumed)
  end.

Definition del_allele (len : nat) (a : aprog) : aprog :=
  if Z.ltb (progress a) 0 then a else
  let '(a', consumed) := del_loop len a 0 len in
  if (consumed <? len) && Z.ltb (progress a') (Z.of_nat (alen a')) then fail_allele a' else a'.

Fixpoint mapi_from {A B} (k : nat) (f : nat -> A -> B) (l : list A) : list B :=
  match l with [] => [] | x :: r => f k x :: mapi_from (S k) f r end.

(* handler(variant, var_entry, bam_read, ref_pos, query_pos, length) *)
Definition handle (op : cop) (query quals : list Z) (variants : list variant) (qp len : nat) (e : vprog) : vprog :=
  match nth_error variants (vid e) with
  | None => e
  | Some v =>
      mkVP (vid e) (qstart e)
        (match op with
         | OpM | OpEQ | OpX => mapi_from 0 (match_allele query quals v (qstart e) (qstart e - qp) len) (alleles e)
         | OpI => mapi_from 0 (ins_allele query v (qstart e) len) (alleles e)
         | OpD => map (del_allele len) (alleles e)
         | _ => alleles e
         end)
  end.

Definition is_resolved (a : aprog) : bool := Z.eqb (progress a) (Z.of_nat (alen a)).
Definition is_pending (a : aprog) : bool := Z.leb 0 (progress a) && Z.ltb (progress a) (Z.of_nat (alen a)).

(* resolved[lengths.index(max(lengths))]: the first resolved allele of maximal length *)
Fixpoint best_resolved (k : nat) (l : list aprog) (best : option (nat * aprog)) : option (nat * aprog) :=
  match l with
  | [] => best
  | a :: r =>
      let best' := if is_resolved a
                   then match best with
                        | Some (_, b) => if alen b <? alen a then Some (k, a) else best
                        | None => Some (k, a)
                        end
                   else best in
      best_resolved (S k) r best'
  end.

Definition verdict (e : vprog) : option det :=
  if existsb is_pending (alleles e) then None else
  match best_resolved 0 (alleles e) None with
  | Some (i, a) => Some (vid e, i, if 0 <? alen a then quality a / alen a else 30)
  | None => None
  end.

(* the `while vqueue:` loop after each M/I/D operation: (yielded, remaining queue) *)
Fixpoint drain (q : list vprog) : list det * list vprog :=
  match q with
  | [] => ([], [])
  | e :: r =>
      if existsb is_pending (alleles e) then ([], q)
      else let (ys, q') := drain r in
           (match verdict e with Some y => y :: ys | None => ys end, q')
  end.

Fixpoint final_yield (q : list vprog) : list det :=
  match q with
  | [] => []
  | e :: r => match verdict e with Some y => y :: final_yield r | None => final_yield r end
  end.

(* queueing loop of one M/I/D operation: (newly queued, remaining progress list) *)
Fixpoint enqueue (skip_at_start : bool) (op : cop) (variants : list variant) (vp : list vprog) (rp qp ref_end : nat)
  : list vprog * list vprog :=
  match vp with
  | [] => ([], [])
  | e :: r =>
      match nth_error variants (vid e) with
      | None => ([], vp)
      | Some v =>
          if ref_end <=? vpos v then ([], vp)
          else
            let ref_len := length (vref v) in
            match op with
            | OpI => if 0 <? ref_len then ([], vp)
                     else if skip_at_start && (vpos v =? rp) then enqueue skip_at_start op variants r rp qp ref_end
                     else let (a, b) := enqueue skip_at_start op variants r rp qp ref_end in
                          (reset e (qp + vpos v - rp) :: a, b)
            | OpD => if ref_len =? 0 then enqueue skip_at_start op variants r rp qp ref_end
                     else let (a, b) := enqueue skip_at_start op variants r rp qp ref_end in (reset e qp :: a, b)
            | _ => if skip_at_start && (ref_len =? 0) && (vpos v =? rp)
                   then enqueue skip_at_start op variants r rp qp ref_end
                   else let (a, b) := enqueue skip_at_start op variants r rp qp ref_end in
                        (reset e (qp + vpos v - rp) :: a, b)
            end
      end
  end.

(* `while j < n: if var_pos >= ref_pos: break; j += 1` *)
Fixpoint skip_progress (variants : list variant) (vp : list vprog) (rp : nat) : list vprog :=
  match vp with
  | [] => []
  | e :: r =>
      match nth_error variants (vid e) with
      | None => vp
      | Some v => if rp <=? vpos v then vp else skip_progress variants r rp
      end
  end.

(* flank: some M/I/D operation has been processed since the read start / the last reference skip *)
Fixpoint detect_loop (R : rules) (cig : cigar) (query quals : list Z) (variants : list variant) (vp queue : list vprog)
         (flank : bool) (rp qp : nat) : list det :=
  match cig with
  | [] => final_yield queue
  | (op, len) :: cig' =>
      let vp := skip_progress variants vp rp in
      match op with
      | OpN => detect_loop R cig' query quals variants vp queue false (rp + len) qp
      | OpS => detect_loop R cig' query quals variants vp queue flank rp (qp + len)
      | OpH | OpP => detect_loop R cig' query quals variants vp queue flank rp qp
      | _ =>
          let (newq, vp') := enqueue ((match op with OpI => r_ins_flank_at_ins R | _ => r_ins_left_flank R end)
                                      && negb flank) op variants vp rp qp
                                      (rp + match op with OpI => if r_ins_span R then 1 else len | _ => len end) in
          let queue1 := map (handle op query quals variants qp len) (queue ++ newq) in
          let rp' := match op with OpI => rp | _ => rp + len end in
          let qp' := match op with OpD => qp | _ => qp + len end in
          let (ys, queue2) := drain queue1 in
          ys ++ detect_loop R cig' query quals variants vp' queue2 true rp' qp'
      end
  end.

(* _detect_alleles(normalized_variants, var_progress, first, bam_read); the caller's skip
   (`valid_positions[i] < reference_start`) is the same skip again for position-sorted input *)
Definition detect_noref (R : rules) (variants : list variant) (start : nat) (cig : cigar) (query quals : list Z) : list det :=
  let nv := map normalized variants in
  let valid := non_overlapping (r_sym_noref R) (index_from 0 nv) [] None in
  let vp := map (fun j => build_var_progress (nth j nv (mkVar 0 [] [])) j) valid in
  detect_loop R cig query quals nv (skip_progress nv vp start) [] false start 0.

(* ------------------------------------------------------------------------------------------------
   alignments, filtering, grouping (variants.py: read, _usable_alignments, _alignments_to_reads,
   _group_reads, create_read_from_group) *)
Record alignment := mkAln {
  a_name : nat;                (* identifies the (source_id, name, sample_id) grouping key *)
  a_supp : bool; a_secondary : bool; a_unmapped : bool; a_dup : bool; a_reverse : bool;
  a_mapq : nat;
  a_start : nat;
  a_cigar : cigar;
  a_query : list Z;            (* query_sequence: soft-clipped bases included, hard-clipped not *)
  a_quals : list Z }.

Definition usable (mapq_threshold : nat) (use_supp duplicates : bool) (a : alignment) : bool :=
  negb ((negb use_supp && a_supp a) || (a_mapq a <? mapq_threshold) || a_secondary a || a_unmapped a
        || (negb duplicates && a_dup a)).

Definition ref_consumed (c : cigar) : nat :=
  fold_right (fun ol acc => match fst ol with OpM | OpD | OpN | OpEQ | OpX => snd ol + acc | _ => acc end) 0 c.
Definition query_consumed (c : cigar) : nat :=
  fold_right (fun ol acc => match fst ol with OpM | OpI | OpS | OpEQ | OpX => snd ol + acc | _ => acc end) 0 c.

(* (position, allele, quality) as stored in a Read *)
Definition rvar := (nat * nat * nat)%type.
Record aligned_read := mkAR { ar_name : nat; ar_supp : bool; ar_reverse : bool; ar_start : nat; ar_end : nat;
                              ar_vars : list rvar }.

Definition to_rvars (variants : list variant) (ds : list det) : list rvar :=
  map (fun d : det => let '(j, a, q) := d in (vpos (nth j variants (mkVar 0 [] [])), a, q)) ds.

(* one alignment; reference = None selects the CIGAR-based path *)
Definition detect_one (R : rules) (reference : option (list Z)) (overhang : nat) (variants : list variant) (a : alignment)
  : option (list rvar) :=
  match reference with
  | Some r => match detect_by_alignment R r overhang variants (a_start a) (a_cigar a) (a_query a) with
              | Some ds => Some (to_rvars variants ds)
              | None => None
              end
  | None => Some (to_rvars variants (detect_noref R variants (a_start a) (a_cigar a) (a_query a) (a_quals a)))
  end.

Fixpoint alignments_to_reads (R : rules) (reference : option (list Z)) (overhang : nat) (variants : list variant)
         (alns : list alignment) : option (list aligned_read) :=
  match alns with
  | [] => Some []
  | a :: r =>
      match detect_one R reference overhang variants a, alignments_to_reads R reference overhang variants r with
      | Some vs, Some rest =>
          Some (match vs with
                | [] => rest                        (* `if read:` *)
                | _ => mkAR (a_name a) (a_supp a) (a_reverse a) (a_start a) (a_start a + ref_consumed (a_cigar a)) vs
                       :: rest
                end)
      | _, _ => None
      end
  end.

(* AlignedRead.distance *)
Definition ar_distance (R : rules) (p o : aligned_read) : Z :=
  if r_distance R
  then Z.max (Z.max (Z.of_nat (ar_start o) - Z.of_nat (ar_end p)) (Z.of_nat (ar_start p) - Z.of_nat (ar_end o))) 0
  else Z.max (Z.max (Z.of_nat (ar_end o) - Z.of_nat (ar_start p)) (Z.of_nat (ar_start o) - Z.of_nat (ar_end p))) 0.

(* the rule of create_read_from_group deciding which members of a group contribute *)
Definition group_member_used (R : rules) (threshold : Z) (primary r : aligned_read) : bool :=
  (Bool.eqb (ar_reverse r) (ar_reverse primary) || (r_pair_keep_mate R && negb (ar_supp r))) && Z.leb (ar_distance R primary r) threshold.

Fixpoint last_primary (g : list aligned_read) (acc : option aligned_read) : option aligned_read :=
  match g with [] => acc | r :: g' => last_primary g' (if ar_supp r then acc else Some r) end.

Fixpoint lookup_pos (p : nat) (l : list rvar) : option rvar :=
  match l with [] => None | (p', a, q) :: r => if p' =? p then Some (p', a, q) else lookup_pos p r end.

(* variants dict (first occurrence wins) and skip set *)
Fixpoint collect (vs : list rvar) (seen : list rvar) (skip : list nat) : list rvar * list nat :=
  match vs with
  | [] => (seen, skip)
  | (p, a, q) :: r =>
      match lookup_pos p seen with
      | Some (_, a', _) => collect r seen (if a' =? a then skip else p :: skip)
      | None => collect r (seen ++ [(p, a, q)]) skip
      end
  end.

Fixpoint insert_sorted (x : rvar) (l : list rvar) : list rvar :=
  match l with
  | [] => [x]
  | y :: r => if fst (fst y) <=? fst (fst x) then y :: insert_sorted x r else x :: l
  end.
Definition sort_rvars (l : list rvar) : list rvar := fold_left (fun acc x => insert_sorted x acc) l [].

(* create_read_from_group: None = the group yields no read *)
Definition read_from_group (R : rules) (threshold : Z) (g : list aligned_read) : option (nat * list rvar) :=
  match last_primary g None with
  | None => None
  | Some primary =>
      if 2 <? length (filter (fun r => negb (ar_supp r)) g) then None else
      let used := filter (group_member_used R threshold primary) g in
      let '(seen, skip) := collect (flat_map ar_vars used) [] [] in
      Some (ar_name primary, sort_rvars (filter (fun v : rvar => negb (existsb (Nat.eqb (fst (fst v))) skip)) seen))
  end.

(* _group_reads: dict of lists in first-appearance order *)
Fixpoint add_to_groups (r : aligned_read) (gs : list (nat * list aligned_read)) : list (nat * list aligned_read) :=
  match gs with
  | [] => [(ar_name r, [r])]
  | (k, g) :: gs' => if k =? ar_name r then (k, g ++ [r]) :: gs' else (k, g) :: add_to_groups r gs'
  end.
Definition group_reads (rs : list aligned_read) : list (list aligned_read) :=
  map snd (fold_left (fun gs r => add_to_groups r gs) rs []).

Fixpoint keep_some {A} (l : list (option A)) : list A :=
  match l with [] => [] | Some x :: r => x :: keep_some r | None :: r => keep_some r end.

(* ReadSetReader.read: per resulting read (name, [(position, allele, quality)]); None = AssertionError *)
Definition read_set (R : rules) (reference : option (list Z)) (overhang mapq_threshold : nat) (use_supp duplicates : bool)
           (threshold : Z) (variants : list variant) (alns : list alignment) : option (list (nat * list rvar)) :=
  match alignments_to_reads R reference overhang variants
          (filter (usable mapq_threshold use_supp duplicates) alns) with
  | None => None
  | Some rs => Some (keep_some (map (read_from_group R threshold) (group_reads rs)))
  end.

(* ---- restricted_genotypes (the haplotagphase calling convention): read(..., restricted_genotypes = one genotype per
   variant); a genotype is the list of its allele indices, [] = missing (./.).  Only re-alignment looks at it.
   The functions below are the ones above with the restriction threaded through; for genotypes = None they coincide
   with them (proofs/AlleleDetectRefuted.v: read_set_r_none). *)
Definition genotypes := option (list (list nat)).
(* `restricted_genotypes[index] if restricted_genotypes else None`; outer None = IndexError *)
Definition restriction_of (g : genotypes) (j : nat) : option (option (list nat)) :=
  match g with
  | None | Some [] => Some None
  | Some l => match nth_error l j with Some x => Some (Some x) | None => None end
  end.
Definition realign_restricted (R : rules) (reference : list Z) (overhang : nat) (v : variant) (cig : cigar)
           (query : list Z) (i consumed qpos : nat) (restr : option (list nat)) : option (option nat) :=
  match restr with
  | None => realign R reference overhang v cig query i consumed qpos
  | Some g =>
      if is_symbolic v then Some None else
      match g with
      | [] => Some None                              (* restricted_variants.is_none() *)
      | _ =>
          match windows R reference overhang v cig query i consumed qpos with
          | None => None
          | Some (q, pref, palt) =>
              (* distances = [(i, d_i) for i in (0, 1) if i in genotype]; one entry: that allele *)
              match existsb (Nat.eqb 0) g, existsb (Nat.eqb 1) g with
              | true, true => Some (decide (edist q pref) (edist q palt))
              | true, false => Some (Some 0)
              | false, true => Some (Some 1)
              | false, false => None                 (* IndexError: the genotype names no allele of the record *)
              end
          end
      end
  end.
Fixpoint realign_all_r (R : rules) (reference : list Z) (overhang : nat) (variants : list variant) (gt : genotypes)
         (cig : cigar) (query : list Z) (ys : list cyield) : option (list det) :=
  match ys with
  | [] => Some []
  | (j, i, consumed, qpos) :: ys' =>
      match nth_error variants j, restriction_of gt j with
      | Some v, Some restr =>
          match realign_restricted R reference overhang v cig query i consumed qpos restr with
          | None => None
          | Some r =>
              match realign_all_r R reference overhang variants gt cig query ys' with
              | None => None
              | Some rest => Some (match r with Some a => (j, a, 30) :: rest | None => rest end)
              end
          end
      | _, _ => None
      end
  end.
Definition detect_by_alignment_r (R : rules) (reference : list Z) (overhang : nat) (variants : list variant)
           (gt : genotypes) (start : nat) (cig : cigar) (query : list Z) : option (list det) :=
  match cig with
  | [] => Some []
  | _ => realign_all_r R reference overhang variants gt cig query (iterate_cigar (index_from 0 variants) start cig)
  end.
Definition detect_one_r (R : rules) (reference : option (list Z)) (overhang : nat) (variants : list variant)
           (gt : genotypes) (a : alignment) : option (list rvar) :=
  match reference with
  | Some r => match detect_by_alignment_r R r overhang variants gt (a_start a) (a_cigar a) (a_query a) with
              | Some ds => Some (to_rvars variants ds)
              | None => None
              end
  | None => Some (to_rvars variants (detect_noref R variants (a_start a) (a_cigar a) (a_query a) (a_quals a)))
  end.
Fixpoint alignments_to_reads_r (R : rules) (reference : option (list Z)) (overhang : nat) (variants : list variant)
         (gt : genotypes) (alns : list alignment) : option (list aligned_read) :=
  match alns with
  | [] => Some []
  | a :: r =>
      match detect_one_r R reference overhang variants gt a, alignments_to_reads_r R reference overhang variants gt r with
      | Some vs, Some rest =>
          Some (match vs with
                | [] => rest
                | _ => mkAR (a_name a) (a_supp a) (a_reverse a) (a_start a) (a_start a + ref_consumed (a_cigar a)) vs
                       :: rest
                end)
      | _, _ => None
      end
  end.
Definition read_set_r (R : rules) (reference : option (list Z)) (overhang mapq_threshold : nat) (use_supp duplicates : bool)
           (threshold : Z) (variants : list variant) (gt : genotypes) (alns : list alignment)
  : option (list (nat * list rvar)) :=
  match alignments_to_reads_r R reference overhang variants gt
          (filter (usable mapq_threshold use_supp duplicates) alns) with
  | None => None
  | Some rs => Some (keep_some (map (read_from_group R threshold) (group_reads rs)))
  end.

(* the defaults of ReadSetReader except for the supplementary distance threshold *)
Definition read_set_default (R : rules) (reference : option (list Z)) (threshold : Z) (variants : list variant)
           (alns : list alignment) :=
  read_set R reference 10 20 false false threshold variants alns.

(* ------------------------------------------------------------------------------------------------
   specification side, evaluated on the implementation's own output *)

(* maximal N-free aligned reference intervals [a, b) of an alignment.  A block that ENDS with an insertion operation
   is extended by one position: its inserted bases stand directly in front of reference position b, so a variant
   located at b (a right-anchored insertion record) is touched by the read (cf. the exception clause of
   iterate_cigar_sound: a yield at an insertion that ends the alignment). *)
Fixpoint blocks_ins (c : cigar) (cur_start rp : nat) (ins_last : bool) : list (nat * nat) :=
  match c with
  | [] => [(cur_start, if ins_last then S rp else rp)]
  | (op, len) :: c' =>
      match op with
      | OpM | OpEQ | OpX | OpD => blocks_ins c' cur_start (rp + len) false
      | OpN => (cur_start, if ins_last then S rp else rp) :: blocks_ins c' (rp + len) (rp + len) false
      | OpI => blocks_ins c' cur_start rp true
      | _ => blocks_ins c' cur_start rp ins_last
      end
  end.
Definition blocks (c : cigar) (cur_start rp : nat) : list (nat * nat) := blocks_ins c cur_start rp false.

(* the variant's reference footprint [p, p + max 1 |ref|) meets an aligned interval *)
Definition overlaps (v : variant) (a : alignment) : bool :=
  existsb (fun b : nat * nat => (fst b <? vpos v + Nat.max 1 (length (vref v))) && (vpos v <? snd b))
          (blocks (a_cigar a) (a_start a) (a_start a)).

Definition rvar_eqb (x y : rvar) : bool :=
  (fst (fst x) =? fst (fst y)) && (snd (fst x) =? snd (fst y)) && (snd x =? snd y).
Fixpoint list_eqb {A} (eqb : A -> A -> bool) (a b : list A) : bool :=
  match a, b with
  | [], [] => true
  | x :: a', y :: b' => eqb x y && list_eqb eqb a' b'
  | _, _ => false
  end.

Fixpoint assoc {A} (k : nat) (l : list (nat * A)) : option A :=
  match l with [] => None | (k', x) :: r => if k' =? k then Some x else assoc k r end.

(* truth: per read name the (position, carried allele) of every variant some usable alignment of that
   name fully covers;  must: per read name the positions that have to be reported (reference mode:
   fully covered and no other carried difference within the re-alignment window) *)
Definition truth_t := list (nat * list (nat * nat)).
Definition must_t := list (nat * list nat).

(* never the other allele *)
Definition no_wrong_allele (truth : truth_t) (out : list (nat * list rvar)) : bool :=
  forallb (fun r : nat * list rvar =>
    match assoc (fst r) truth with
    | None => true
    | Some t => forallb (fun x : rvar => match assoc (fst (fst x)) t with
                                         | Some al => snd (fst x) =? al
                                         | None => true end) (snd r)
    end) out.

(* no allele for a variant that no usable alignment of that read overlaps *)
Definition only_overlapped (mapq_threshold : nat) (use_supp duplicates : bool) (variants : list variant)
           (alns : list alignment) (out : list (nat * list rvar)) : bool :=
  forallb (fun r : nat * list rvar =>
    forallb (fun x : rvar =>
      existsb (fun v => (vpos v =? fst (fst x)) &&
                 existsb (fun a => (a_name a =? fst r) && usable mapq_threshold use_supp duplicates a && overlaps v a) alns)
              variants) (snd r)) out.

(* every allele that must be found is reported (for reads that are reported at all or not) *)
Definition none_missing (must : must_t) (out : list (nat * list rvar)) : bool :=
  forallb (fun m : nat * list nat =>
    forallb (fun p => match assoc (fst m) out with
                      | Some vs => existsb (fun x : rvar => fst (fst x) =? p) vs
                      | None => false end) (snd m)) must.

Definition out_eqb (a b : list (nat * list rvar)) : bool :=
  (length a =? length b) &&
  forallb (fun r : nat * list rvar => match assoc (fst r) b with
                                      | Some vs => list_eqb rvar_eqb (snd r) vs
                                      | None => false end) a.

(* a block may also merely touch the end of the footprint (used to classify the insertion-at-block-start defect) *)
Definition overlaps_or_touches (v : variant) (a : alignment) : bool :=
  existsb (fun b : nat * nat => (fst b <=? vpos v + Nat.max 1 (length (vref v))) && (vpos v <? snd b))
          (blocks (a_cigar a) (a_start a) (a_start a)).
Definition only_overlapped_or_touched (mapq_threshold : nat) (use_supp duplicates : bool) (variants : list variant)
           (alns : list alignment) (out : list (nat * list rvar)) : bool :=
  forallb (fun r : nat * list rvar =>
    forallb (fun x : rvar =>
      existsb (fun v => (vpos v =? fst (fst x)) &&
                 existsb (fun a => (a_name a =? fst r) && usable mapq_threshold use_supp duplicates a && overlaps_or_touches v a) alns)
              variants) (snd r)) out.

(* ---- read groups (whatshap/bam.py: SampleBamReader._initialize_sample_to_group_ids, fetch) ----
   header: the @RG lines in header order as (read group id, SM sample id if any); rgs: the RG tag of each alignment
   (None = no RG tag), parallel to the alignment list; sample = None is the --ignore-read-groups call. *)
Definition rg_header := list (nat * option nat).
Definition sample_groups (h : rg_header) (s : nat) : list nat :=
  map fst (filter (fun g : nat * option nat => match snd g with Some s' => s' =? s | None => false end) h).
Fixpoint select_by_rg {A} (gs : list nat) (rgs : list (option nat)) (alns : list A) : list A :=
  match rgs, alns with
  | Some g :: rgs', a :: alns' =>
      if existsb (Nat.eqb g) gs then a :: select_by_rg gs rgs' alns' else select_by_rg gs rgs' alns'
  | _ :: rgs', _ :: alns' => select_by_rg gs rgs' alns'
  | _, _ => []
  end.
(* error classes: 1 = SampleNotFoundError (no read group names the sample), 2 = KeyError (an alignment without RG
   tag is met while a sample is requested); 0 with result None = AssertionError from re-alignment *)
Definition sample_select (h : rg_header) (sample : option nat) (rgs : list (option nat)) (alns : list alignment)
  : option (list alignment) * nat :=
  match sample with
  | None => (Some alns, 0)
  | Some s =>
      match sample_groups h s with
      | [] => (None, 1)
      | gs => if existsb (fun r : option nat => match r with None => true | Some _ => false end) rgs
              then (None, 2) else (Some (select_by_rg gs rgs alns), 0)
      end
  end.
Definition rg_info := (rg_header * option nat * list (option nat))%type.
Definition impl_out := (option (list (nat * list rvar)) * nat)%type.
(* constructor options of ReadSetReader varied by the check: (overhang, mapq_threshold, use_supplementary, duplicates) *)
Definition options := (nat * nat * bool * bool * genotypes)%type.
Definition default_options : options := (10, 20, false, false, None).
Definition read_set_sample (R : rules) (reference : option (list Z)) (threshold : Z) (o : options) (rg : rg_info)
           (variants : list variant) (alns : list alignment) : impl_out :=
  let '(h, sample, rgs) := rg in
  let '(overhang, mapq, use_supp, dup, gt) := o in
  match sample_select h sample rgs alns with
  | (Some l, _) => (read_set_r R reference overhang mapq use_supp dup threshold variants gt l, 0)
  | (None, e) => (None, e)
  end.
(* the alignments that belong to the requested sample (specification side: every read group whose SM is the sample) *)
Definition of_sample (rg : rg_info) (alns : list alignment) : list alignment :=
  let '(h, sample, rgs) := rg in
  match sample with None => alns | Some s => select_by_rg (sample_groups h s) rgs alns end.
(* inputs the reader rejects by design: unknown sample, or an alignment without RG tag while a sample is requested *)
Definition malformed (rg : rg_info) : bool :=
  let '(h, sample, rgs) := rg in
  match sample with
  | None => false
  | Some s => match sample_groups h s with [] => true | _ => false end
              || existsb (fun r : option nat => match r with None => true | Some _ => false end) rgs
  end.

(* One correspondence case.  truth / must: variants whose re-alignment window is free of other differences
   (reference mode) resp. all fully covered variants (reference-free mode); truth_skip / must_skip: the window
   is clean except that it reaches a reference skip; must_pair: like must, but also for the mate on the other strand.
   All of them refer to the alignments of the requested sample only. *)
Definition case_t := ((option (list Z) * Z * options * rg_info) * list variant * list alignment
                      * (truth_t * truth_t) * (must_t * must_t * must_t)
                      * impl_out)%type.

Definition c_out (c : case_t) := fst (snd c).
Definition with_out (c : case_t) (f : list (nat * list rvar) -> bool) : bool :=
  match c_out c with Some o => f o | None => true end.

Definition l1_no_wrong (c : case_t) : bool :=
  let '(_, _, _, (truth, _), _, _) := c in with_out c (no_wrong_allele truth).
Definition l1_no_wrong_skip (c : case_t) : bool :=
  let '(_, _, _, (_, truth_skip), _, _) := c in with_out c (no_wrong_allele truth_skip).
(* only overlapped variants, and only on reads of the requested sample *)
Definition l1_overlap (c : case_t) : bool :=
  let '((_, _, (_, mapq, use_supp, dup, _), rg), variants, alns, _, _, _) := c in
  with_out c (only_overlapped mapq use_supp dup variants (of_sample rg alns)).
Definition l1_overlap_touch (c : case_t) : bool :=
  let '((_, _, (_, mapq, use_supp, dup, _), rg), variants, alns, _, _, _) := c in
  with_out c (only_overlapped_or_touched mapq use_supp dup variants (of_sample rg alns)).
Definition l1_missing (c : case_t) : bool :=
  let '(_, _, _, _, (must, _, _), _) := c in with_out c (none_missing must).
Definition l1_missing_skip (c : case_t) : bool :=
  let '(_, _, _, _, (_, must_skip, _), _) := c in with_out c (none_missing must_skip).
Definition l1_missing_pair (c : case_t) : bool :=
  let '(_, _, _, _, (_, _, must_pair), _) := c in with_out c (none_missing must_pair).
Definition l1_no_crash (c : case_t) : bool :=
  let '((_, _, _, rg), _, _, _, _, _) := c in
  malformed rg || match c_out c with Some _ => true | None => false end.
Definition l2_model_with (R : rules) (c : case_t) : bool :=
  let '((reference, threshold, o, rg), variants, alns, _, _, (out, err)) := c in
  let '(m, merr) := read_set_sample R reference threshold o rg variants alns in
  (err =? merr) &&
  match out, m with
  | Some o, Some m => out_eqb o m
  | None, None => true
  | _, _ => false
  end.
Definition l2_model := l2_model_with current_rules.
Definition clauses_ok (c : case_t) : bool :=
  l1_no_crash c && l1_no_wrong c && l1_no_wrong_skip c && l1_overlap c && l1_missing c && l1_missing_skip c
  && l1_missing_pair c.
Definition with_model (R : rules) (c : case_t) : case_t :=
  let '((reference, threshold, o, rg), variants, alns, tr, mu, _) := c in
  ((reference, threshold, o, rg), variants, alns, tr, mu, read_set_sample R reference threshold o rg variants alns).
(* the same input under the repaired rules satisfies every L1 clause (evaluated on the model's output) *)
Definition repaired_ok (c : case_t) : bool := clauses_ok (with_model repaired_rules c).
(* attribution of a failing case to the defective rules: rule k is needed iff repairing all others is not enough *)
Definition not_needed (k : nat) (c : case_t) : bool := clauses_ok (with_model (all_but k) c).

(* ------------------------------------------------------------------------------------------------
   vocabulary of the theorems: a CIGAR as the list of its unit operations *)
Definition expand (c : cigar) : list cop := flat_map (fun ol => repeat (fst ol) (snd ol)) c.
Definition ref_unit (o : cop) : nat := match o with OpM | OpD | OpN | OpEQ | OpX => 1 | _ => 0 end.
Definition query_unit (o : cop) : nat := match o with OpM | OpI | OpS | OpEQ | OpX => 1 | _ => 0 end.
Definition ref_units (u : list cop) : nat := fold_right (fun o acc => ref_unit o + acc) 0 u.
Definition query_units (u : list cop) : nat := fold_right (fun o acc => query_unit o + acc) 0 u.
Definition is_clip (o : cop) : bool := match o with OpS | OpH => true | _ => false end.
(* operations that may occur inside a variant's footprint *)
Definition is_aligned (o : cop) : bool := match o with OpM | OpEQ | OpX | OpI | OpD => true | _ => false end.
Definition positive_lengths (c : cigar) : Prop := Forall (fun ol : cop * nat => 0 < snd ol) c.
(* the split point (i, consumed) of _iterate_cigar as an index into the unit operations *)
Definition unit_index (c : cigar) (i consumed : nat) : nat := length (expand (firstn i c)) + consumed.
(* how a re-alignment window may end before `overhang` matching bases are reached: only clips up to the end of
   the read, or (under the repaired skip rule only) clips and then a reference skip *)
Definition window_end (R : rules) (rest : list cop) : Prop :=
  forallb is_clip rest = true \/
  (r_skip_consumed R = true /\ exists rest1 rest2, rest = rest1 ++ OpN :: rest2 /\ forallb is_clip rest1 = true).

(* positions weakly increasing along an indexed variant list *)
Fixpoint sorted_pos (vs : list ivar) : Prop :=
  match vs with
  | [] => True
  | x :: r => Forall (fun y : ivar => vpos (snd x) <= vpos (snd y)) r /\ sorted_pos r
  end.

(* what _iterate_cigar promises about one yield (index, i, consumed, query_pos) for a variant at position p:
   operation i is a match / deletion containing p at offset `consumed`, or an insertion located at p;
   query_pos is the number of query bases before the base aligned to p (before the insertion / deletion) *)
Definition yield_ok (start : nat) (cig : cigar) (p : nat) (y : cyield) : Prop :=
  let '(_, i, consumed, qpos) := y in
  exists op len, nth_error cig i = Some (op, len) /\
    let rb := start + ref_units (expand (firstn i cig)) in
    let qb := query_units (expand (firstn i cig)) in
    (is_match op = true /\ consumed < len /\ p = rb + consumed /\ qpos = qb + consumed) \/
    (op = OpD /\ consumed < len /\ p = rb + consumed /\ qpos = qb) \/
    (op = OpI /\ consumed = 0 /\ p = rb /\ qpos = qb).

(* the query index of the base aligned to reference position p, if p lies in a match operation *)
Fixpoint qidx (cig : cigar) (rp qp p : nat) : option nat :=
  match cig with
  | [] => None
  | (op, len) :: c =>
      if is_match op && (rp <=? p) && (p <? rp + len) then Some (qp + (p - rp))
      else qidx c (rp + ref_unit op * len) (qp + query_unit op * len) p
  end.
Definition query_index (cig : cigar) (start p : nat) : option nat := qidx cig start 0 p.

(* a single-base substitution after normalisation *)
Definition snv_shape (v : variant) : Prop := length (vref v) = 1 /\ length (valt v) = 1.

(* vocabulary of the reference-free theorem: the alignment shows allele `carried` of the (normalised) variant v
   at the variant's position, the way _detect_alleles expects it *)
Definition pure_indel (v : variant) : Prop := (vref v = [] /\ valt v <> []) \/ (valt v = [] /\ vref v <> []).
Definition allele_units (v : variant) (carried : nat) (V : list cop) : Prop :=
  match carried with
  | 0 => forallb is_match V = true /\ length V = length (vref v)
  | _ => exists M, forallb is_match M = true /\ length M = Nat.min (length (vref v)) (length (valt v)) /\
                   V = M ++ repeat OpI (length (valt v) - length (vref v))
                         ++ repeat OpD (length (vref v) - length (valt v))
  end.
(* the variant's operations are preceded and followed by an aligned base *)
Definition flanked (pre post : list cop) : Prop :=
  (exists pre' m, pre = pre' ++ [m] /\ is_match m = true) /\ (exists m post', post = m :: post' /\ is_match m = true).

(* ------------------------------------------------------------------------------------------------
   full statements (parametrised by the rule set) that the code as it is refutes; see props/C06.v *)

(* realign_correct where a re-alignment window may also end at a reference skip (N) -- for any R the skip variant
   of window_end is the one of the repaired rule set *)
Definition realign_correct_with_skips_statement (R : rules) : Prop :=
  forall (reference query : list Z) (overhang : nat) (v : variant) (cig : cigar)
         (i consumed qpos : nat) (op : cop) (len : nat) (pre LM V RM post : list cop)
         (r1 WL WR r2 q1 q2 : list Z) (carried : nat),
  0 < overhang -> positive_lengths cig ->
  nth_error cig i = Some (op, len) -> consumed <= len ->
  firstn (unit_index cig i consumed) (expand cig) = pre ++ LM ->
  skipn (unit_index cig i consumed) (expand cig) = V ++ RM ++ post ->
  forallb is_match LM = true -> forallb is_match RM = true -> forallb is_aligned V = true ->
  carried <= 1 ->
  ref_units V = length (vref v) -> query_units V = length (get_allele v carried) ->
  (overhang <= length LM \/ window_end repaired_rules (rev pre)) ->
  (overhang <= length RM \/ window_end repaired_rules post) ->
  reference = r1 ++ WL ++ vref v ++ WR ++ r2 -> vpos v = length r1 + length WL ->
  query = q1 ++ WL ++ get_allele v carried ++ WR ++ q2 ->
  length WL = length LM -> length WR = length RM ->
  length q1 = query_units pre -> qpos = query_units (pre ++ LM) ->
  vref v <> valt v -> is_symbolic v = false ->
  realign R reference overhang v cig query i consumed qpos = Some (Some carried).

(* without reference: an alignment that shows allele `carried` of a (normalised) SNV or pure insertion/deletion at the
   variant's position -- flanked by aligned bases in the indel case -- is never assigned the other allele, whatever
   else (clips, skips, other insertions/deletions, other variants) the alignment and the variant list contain *)
Definition detect_noref_never_wrong_statement (R : rules) : Prop :=
  forall (variants : list variant) (start : nat) (cig : cigar) (query quals : list Z) (j a q : nat)
         (v : variant) (carried : nat) (pre V post : list cop) (q1 q2 : list Z),
  sorted_pos (index_from 0 (map normalized variants)) -> positive_lengths cig ->
  In (j, a, q) (detect_noref R variants start cig query quals) ->
  nth_error (map normalized variants) j = Some v ->
  (snv_shape v \/ pure_indel v) -> vref v <> valt v -> carried <= 1 ->
  expand cig = pre ++ V ++ post -> vpos v = start + ref_units pre -> allele_units v carried V ->
  query = q1 ++ get_allele v carried ++ q2 -> length q1 = query_units pre ->
  (pure_indel v -> flanked pre post) ->
  a = carried.

(* without reference: an allele is only recorded for a variant whose footprint meets the reference span of the alignment *)
Definition detect_noref_only_overlapped_statement (R : rules) : Prop :=
  forall (variants : list variant) (start : nat) (cig : cigar) (query quals : list Z) (j a q : nat) (v0 : variant),
  sorted_pos (index_from 0 (map normalized variants)) ->
  In (j, a, q) (detect_noref R variants start cig query quals) ->
  nth_error variants j = Some v0 ->
  start < vpos v0 + Nat.max 1 (length (vref v0)) /\ vpos v0 < start + ref_units (expand cig).

(* the two primary alignments of a read pair both contribute their alleles *)
Definition pair_keeps_both_mates_statement (R : rules) : Prop :=
  forall (threshold : Z) (r1 r2 : aligned_read) (x : rvar),
  (0 <= threshold)%Z -> ar_start r2 <= ar_end r2 ->
  ar_supp r1 = false -> ar_supp r2 = false -> ar_name r1 = ar_name r2 ->
  Z.leb (ar_distance R r2 r1) threshold = true ->
  In x (ar_vars r1) -> (forall y, In y (ar_vars r1 ++ ar_vars r2) -> fst (fst y) = fst (fst x) -> y = x) ->
  exists vs, read_from_group R threshold [r1; r2] = Some (ar_name r2, vs) /\ In x vs.

(* a single primary alignment keeps the alleles detected on it *)
Definition single_alignment_kept_statement (R : rules) : Prop :=
  forall (threshold : Z) (r : aligned_read) (x : rvar),
  (0 <= threshold)%Z -> ar_supp r = false -> ar_start r <= ar_end r -> In x (ar_vars r) ->
  (forall y, In y (ar_vars r) -> fst (fst y) = fst (fst x) -> y = x) ->
  exists vs, read_from_group R threshold [r] = Some (ar_name r, vs) /\ In x vs.

(* positions strictly increasing (what VcfReader delivers and ReadSetReader.read asserts) *)
Fixpoint sorted_strict (vs : list ivar) : Prop :=
  match vs with
  | [] => True
  | x :: r => Forall (fun y : ivar => vpos (snd x) < vpos (snd y)) r /\ sorted_strict r
  end.

(* without reference, records with a symbolic ALT (<DEL>, <DUP>, ...) are never reported *)
Definition detect_noref_skips_symbolic_statement (R : rules) : Prop :=
  forall (variants : list variant) (start : nat) (cig : cigar) (query quals : list Z) (j a q : nat) (v : variant),
  sorted_pos (index_from 0 (map normalized variants)) ->
  In (j, a, q) (detect_noref R variants start cig query quals) ->
  nth_error (map normalized variants) j = Some v ->
  is_symbolic v = false.
