(* Executable model of whatshap/priorityqueue.pyx (binary max-heap with an item -> index map).
   Model only: no lemmas here, so that it still evaluates when a proof breaks. *)
From Coq Require Import ZArith List Bool Arith.
Import ListNotations.
Open Scope Z_scope.

Definition score := list Z.
Definition entry := (score * Z)%type.          (* (score vector, item) *)

(* _vector_score_lower: strict lexicographic; on a common prefix the shorter vector is lower *)
Fixpoint lower (a b : score) : bool :=
  match a, b with
  | [], [] => false
  | [], _ :: _ => true
  | _ :: _, [] => false
  | x :: a', y :: b' => if x <? y then true else if y <? x then false else lower a' b'
  end.

(* positions: unordered_map<item,int>; operator[] on a missing key yields 0 *)
Definition posmap := list (Z * nat).
Fixpoint pos_find (p : posmap) (it : Z) : option nat :=
  match p with
  | [] => None
  | (k, v) :: p' => if k =? it then Some v else pos_find p' it
  end.
Definition pos_get (p : posmap) (it : Z) : nat :=
  match pos_find p it with Some v => v | None => 0%nat end.
Fixpoint pos_set (p : posmap) (it : Z) (v : nat) : posmap :=
  match p with
  | [] => [(it, v)]
  | (k, w) :: p' => if k =? it then (k, v) :: p' else (k, w) :: pos_set p' it v
  end.
Fixpoint pos_erase (p : posmap) (it : Z) : posmap :=
  match p with
  | [] => []
  | (k, w) :: p' => if k =? it then p' else (k, w) :: pos_erase p' it
  end.

Record pq := PQ { heap : list entry; pos : posmap }.
Definition empty_pq : pq := PQ [] [].

Definition dflt : entry := ([], 0).
Definition hget (h : list entry) (i : nat) : entry := nth i h dflt.
Fixpoint hset (h : list entry) (i : nat) (e : entry) : list entry :=
  match h, i with
  | [], _ => []
  | _ :: t, O => e :: t
  | x :: t, S i' => x :: hset t i' e
  end.

Definition swap (q : pq) (i1 i2 : nat) : pq :=
  let e1 := hget (heap q) i1 in
  let pos1 := pos_get (pos q) (snd e1) in
  let e2 := hget (heap q) i2 in
  let pos2 := pos_get (pos q) (snd e2) in
  let p := pos_set (pos_set (pos q) (snd e1) pos2) (snd e2) pos1 in
  PQ (hset (hset (heap q) i1 e2) i2 e1) p.

Definition score_lower (q : pq) (i1 i2 : nat) : bool :=
  lower (fst (hget (heap q) i1)) (fst (hget (heap q) i2)).

Definition parent (i : nat) : nat := Nat.div (i - 1) 2.

(* _sift_up: recursion on fuel; the index strictly decreases so fuel = index + 1 suffices *)
Fixpoint sift_up (fuel : nat) (q : pq) (i : nat) : pq :=
  match fuel with
  | O => q
  | S f =>
      match i with
      | O => q
      | _ => let p := parent i in
             if score_lower q p i then sift_up f (swap q p i) p else q
      end
  end.

(* _sift_down: fuel = heap size *)
Fixpoint sift_down (fuel : nat) (q : pq) (i : nat) : pq :=
  match fuel with
  | O => q
  | S f =>
      let r := (2 * i + 2)%nat in
      let l := (2 * i + 1)%nat in
      let n := length (heap q) in
      if Nat.ltb r n then
        if score_lower q l r then
          if score_lower q i r then sift_down f (swap q r i) r else q
        else
          if score_lower q i l then sift_down f (swap q l i) l else q
      else if Nat.ltb l n then
        if score_lower q i l then sift_down f (swap q l i) l else q
      else q
  end.

Definition push (q : pq) (s : score) (it : Z) : pq :=
  let n := length (heap q) in
  let q1 := PQ (heap q ++ [(s, it)]) (pos_set (pos q) it n) in
  sift_up (S n) q1 n.

Definition pop (q : pq) : option (entry * pq) :=
  match heap q with
  | [] => None                                   (* IndexError('PriorityQueue empty.') *)
  | first :: _ =>
      let n := length (heap q) in
      let last := hget (heap q) (n - 1) in
      if Nat.eqb n 1 then
        Some (first, PQ [] (pos_erase (pos q) (snd first)))
      else
        let h1 := removelast (hset (heap q) 0 last) in
        let p1 := pos_erase (pos_set (pos q) (snd last) 0) (snd first) in
        Some (first, sift_down n (PQ h1 p1) 0)
  end.

Definition change_score (q : pq) (it : Z) (s : score) : pq :=
  let i := pos_get (pos q) it in
  let e := hget (heap q) i in
  let q1 := PQ (hset (heap q) i (s, snd e)) (pos q) in
  if lower (fst e) s then sift_up (S i) q1 i else sift_down (length (heap q)) q1 i.

Definition get_score (q : pq) (it : Z) : option score :=
  match pos_find (pos q) it with
  | None => None
  | Some i => Some (fst (hget (heap q) i))
  end.

Definition size (q : pq) : nat := length (heap q).

(* ---- operation histories (correspondence + theorems) *)
Inductive op :=
| OPush (s : score) (it : Z)
| OPop
| OChange (it : Z) (s : score)
| OGet (it : Z)
| OLen.

Inductive out :=
| RUnit
| RPop (e : option entry)       (* None = IndexError *)
| RGet (s : option score)
| RLen (n : nat).

Definition step (q : pq) (o : op) : pq * out :=
  match o with
  | OPush s it => (push q s it, RUnit)
  | OPop => match pop q with
            | None => (q, RPop None)
            | Some (e, q') => (q', RPop (Some e))
            end
  | OChange it s => (change_score q it s, RUnit)
  | OGet it => (q, RGet (get_score q it))
  | OLen => (q, RLen (size q))
  end.

Fixpoint run (q : pq) (ops : list op) : list out :=
  match ops with
  | [] => []
  | o :: ops' => let (q', r) := step q o in r :: run q' ops'
  end.

Fixpoint run_state (q : pq) (ops : list op) : pq :=
  match ops with
  | [] => q
  | o :: ops' => run_state (fst (step q o)) ops'
  end.
