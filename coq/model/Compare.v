(* Executable model of whatshap/cli/compare.py (diploid functions, block intersection, BED records,
   longest-block agreement vector, multiway histogram) and of the polyploid switch/flip cost of
   src/polyphase/switchflipcalculator.cpp (as a plain, unpruned DP over haplotype permutations),
   together with the executable specification side (explicit switch transformations, brute-force minima).
   Model only: no lemmas here, so that it still evaluates when a proof breaks. *)
From Coq Require Import List Bool Arith NArith ZArith.
Import ListNotations.

(* ============================================================================================ *)
(* 1. Diploid haplotype strings over {0,1}                                                      *)
(* ============================================================================================ *)

(* a haplotype restricted to a block: '0' = false, '1' = true *)
Definition hap := list bool.

(* compare.py: complement *)
Definition complement (s : hap) : hap := map negb s.

(* compare.py: hamming(s0, s1) = sum(c0 != c1 for c0, c1 in zip(s0, s1)); it is applied to strings
   (elements = characters) and -- in compare_pair -- to lists of strings (elements = strings).
   The python assert len(s0) == len(s1) is the caller's precondition (checked in compare_block_dip). *)
Fixpoint hamming_by {A : Type} (neqb : A -> A -> bool) (s0 s1 : list A) : nat :=
  match s0, s1 with
  | a :: t0, b :: t1 => (if neqb a b then 1 else 0) + hamming_by neqb t0 t1
  | _, _ => 0
  end.
Definition hamming (s0 s1 : hap) : nat := hamming_by xorb s0 s1.

Fixpoint hap_eqb (a b : hap) : bool :=
  match a, b with
  | [], [] => true
  | x :: a', y :: b' => Bool.eqb x y && hap_eqb a' b'
  | _, _ => false
  end.
Definition hap_neqb (a b : hap) : bool := negb (hap_eqb a b).

(* compare.py: switch_encoding *)
Fixpoint switch_encoding (p : hap) : hap :=
  match p with
  | [] => []
  | a :: t => match t with [] => [] | b :: _ => xorb a b :: switch_encoding t end
  end.

(* compare.py: compute_switch_flips; result (switches, flips).
   loop state: switches_in_a_row, flips, switches; "i + 1 == len(s0)" is "no element of s0 left". *)
Fixpoint csf_loop (s0 s1 : hap) (row fl sw : nat) : nat * nat :=
  match s0, s1 with
  | a :: t0, b :: t1 =>
      let row' := if xorb a b then S row else row in
      let last := match t0 with [] => true | _ => false end in
      if last || negb (xorb a b)
      then csf_loop t0 t1 0 (fl + Nat.div row' 2) (sw + Nat.modulo row' 2)
      else csf_loop t0 t1 row' fl sw
  | _, _ => (sw, fl)
  end.
Definition compute_switch_flips (p0 p1 : hap) : nat * nat :=
  csf_loop (switch_encoding p0) (switch_encoding p1) 0 0 0.

(* a diploid phasing of a block: the two haplotype strings in the order of the file *)
Definition phasing2 := (hap * hap)%type.

(* Genotype equality of a column = equality of allele multisets; for 0/1 alleles: same number of 1s *)
Definition b2n (b : bool) : nat := if b then 1 else 0.
Fixpoint diff_genotypes_dip (h00 h01 h10 h11 : hap) : nat :=
  match h00, h01, h10, h11 with
  | a :: t0, b :: t1, c :: t2, d :: t3 =>
      (if Nat.eqb (b2n a + b2n b) (b2n c + b2n d) then 0 else 1) + diff_genotypes_dip t0 t1 t2 t3
  | _, _, _, _ => 0
  end.

Record phasing_errors := PE {
  pe_switches : nat;        (* PhasingErrors.switches *)
  pe_hamming : nat;         (* PhasingErrors.hamming *)
  pe_sf : nat * nat;        (* PhasingErrors.switch_flips as (switches, flips) *)
  pe_diff : nat             (* PhasingErrors.diff_genotypes *)
}.

(* compare.py: compare_block, branch ploidy == 2.
   minimum over the two orders of phasing0 of (hamming(phasing1[0], perm[0]) + hamming(phasing1[1], perm[1])) / 2.0,
   then int(): = floor of half the smaller sum.  None = AssertionError (strings of unequal length). *)
Definition compare_block_dip (ph0 ph1 : phasing2) : option phasing_errors :=
  let '(h00, h01) := ph0 in
  let '(h10, h11) := ph1 in
  let n := length h00 in
  if Nat.eqb (length h01) n && Nat.eqb (length h10) n && Nat.eqb (length h11) n then
    let sum_id := hamming h10 h00 + hamming h11 h01 in
    let sum_sw := hamming h10 h01 + hamming h11 h00 in
    Some (PE (hamming (switch_encoding h00) (switch_encoding h10))
             (Nat.min (Nat.div sum_id 2) (Nat.div sum_sw 2))
             (compute_switch_flips h00 h10)
             (diff_genotypes_dip h00 h01 h10 h11))
  else None.

(* BedCreator.records: one record (positions[i]+1, positions[i+1]+1) per differing switch-encoding position *)
Fixpoint bed_loop (s0 s1 : hap) (pos : list Z) : list (Z * Z) :=
  match s0, s1, pos with
  | a :: t0, b :: t1, x :: pt =>
      match pt with
      | y :: _ => (if xorb a b then [((x + 1)%Z, (y + 1)%Z)] else []) ++ bed_loop t0 t1 pt
      | [] => []
      end
  | _, _, _ => []
  end.
Definition bed_records (p0 p1 : hap) (pos : list Z) : list (Z * Z) :=
  bed_loop (switch_encoding p0) (switch_encoding p1) pos.

(* -------- orientation of the longest-block agreement vector (compare_pair) -------------------
   current code:   hamming(phasing0, phasing1) < hamming(phasing0[0], complement(phasing1[0]))
   where the left-hand side compares the two LISTS of strings (a value in {0,1,2}). *)
Definition orientation_current (ph0 ph1 : phasing2) : bool :=
  Nat.ltb (hamming_by hap_neqb [fst ph0; snd ph0] [fst ph1; snd ph1])
          (hamming (fst ph0) (complement (fst ph1))).
(* repaired rule:  hamming(phasing0[0], phasing1[0]) < hamming(phasing0[0], complement(phasing1[0])) *)
Definition orientation_fixed (ph0 ph1 : phasing2) : bool :=
  Nat.ltb (hamming (fst ph0) (fst ph1)) (hamming (fst ph0) (complement (fst ph1))).

Fixpoint zip_with {A B C : Type} (f : A -> B -> C) (l0 : list A) (l1 : list B) : list C :=
  match l0, l1 with
  | a :: t0, b :: t1 => f a b :: zip_with f t0 t1
  | _, _ => []
  end.

(* [1*(p0 == p1) ...] if the orientation test holds, else [1*(p0 != p1) ...] *)
Definition agreement_with (orient : phasing2 -> phasing2 -> bool) (ph0 ph1 : phasing2) : list bool :=
  if orient ph0 ph1 then zip_with Bool.eqb (fst ph0) (fst ph1) else zip_with xorb (fst ph0) (fst ph1).
(* the code as it is *)
Definition agreement_current : phasing2 -> phasing2 -> list bool := agreement_with orientation_current.
(* repair as proposed in DESIGN F1 *)
Definition agreement_fixed : phasing2 -> phasing2 -> list bool := agreement_with orientation_fixed.
(* alternative repair that also avoids complement() (which raises KeyError on alleles >= 2):
     if hamming(phasing0[0], phasing1[0]) < hamming(phasing0[0], phasing1[1]):
         [1 * (a == b) for a, b in zip(phasing0[0], phasing1[0])]
     else:
         [1 * (a == b) for a, b in zip(phasing0[0], phasing1[1])]                                  *)
Definition agreement_fixed_alt (ph0 ph1 : phasing2) : list bool :=
  if Nat.ltb (hamming (fst ph0) (fst ph1)) (hamming (fst ph0) (snd ph1))
  then zip_with Bool.eqb (fst ph0) (fst ph1) else zip_with Bool.eqb (fst ph0) (snd ph1).

(* >>> THE ONE DEFINITION TO SWITCH after compare_pair is repaired in /repo:
       replace agreement_current by agreement_fixed (or agreement_fixed_alt) on the next line. <<< *)
Definition agreement : phasing2 -> phasing2 -> list bool := agreement_fixed_alt.

(* number of positions marked 0 (= disagreement) in the agreement vector *)
Definition zeros (v : list bool) : nat := length (filter negb v).

(* ============================================================================================ *)
(* 2. compare(): joint blocks, compare_pair, multiway                                           *)
(* ============================================================================================ *)

Fixpoint zlist_eqb (a b : list Z) : bool :=
  match a, b with
  | [], [] => true
  | x :: a', y :: b' => Z.eqb x y && zlist_eqb a' b'
  | _, _ => false
  end.

(* joint_block_id of one common variant: the tuple of block ids, defined iff every data set phases it *)
Fixpoint all_some (r : list (option Z)) : option (list Z) :=
  match r with
  | [] => Some []
  | Some b :: t => match all_some t with Some l => Some (b :: l) | None => None end
  | None :: _ => None
  end.

(* block_intersection[joint_block_id].append(variant_index): a dict in insertion order *)
Fixpoint group_add (key : list Z) (v : nat) (g : list (list Z * list nat)) : list (list Z * list nat) :=
  match g with
  | [] => [(key, [v])]
  | (k, vs) :: t => if zlist_eqb k key then (k, vs ++ [v]) :: t else (k, vs) :: group_add key v t
  end.
Fixpoint bi_loop (ids : list (list (option Z))) (v : nat) (g : list (list Z * list nat)) :=
  match ids with
  | [] => g
  | r :: t => bi_loop t (S v) (match all_some r with Some key => group_add key v g | None => g end)
  end.
(* ids: one row per common variant (ascending position), one entry per data set: Some block_id if the
   data set phases the variant (no missing allele), None otherwise *)
Definition block_intersection (ids : list (list (option Z))) : list (list Z * list nat) :=
  bi_loop ids 0 [].

(* -- specification side: phase sets and their intersections -- *)
Definition optz_eqb (a b : option Z) : bool :=
  match a, b with Some x, Some y => Z.eqb x y | None, None => true | _, _ => false end.
(* the phase set with id b of data set i, as the ascending list of variant indices *)
Definition phase_set (ids : list (list (option Z))) (i : nat) (b : Z) : list nat :=
  filter (fun v => optz_eqb (nth i (nth v ids []) None) (Some b)) (seq 0 (length ids)).
Definition mem_nat (x : nat) (l : list nat) : bool := existsb (Nat.eqb x) l.
(* intersection of the phase sets key[0] of data set 0, key[1] of data set 1, ... *)
Definition joint_spec (ids : list (list (option Z))) (key : list Z) : list nat :=
  filter (fun v => forallb (fun ib => mem_nat v (phase_set ids (fst ib) (snd ib)))
                           (combine (seq 0 (length key)) key))
         (seq 0 (length ids)).

(* -- reading: what VcfReader delivers for the chosen sample, per file and chromosome --
   call = (position, allele-id (stands for REF/ALT), heterozygous?, phase) with
   phase = Some (block_id, (allele of haplotype 0, allele of haplotype 1)) iff the call is phased and has no missing allele.
   Precondition: positions strictly ascending within a table (VcfReader skips duplicates, rejects unsorted). *)
Definition dphase := option (Z * (bool * bool)).
Definition call := (Z * Z * bool * dphase)%type.
Definition c_pos (c : call) : Z := fst (fst (fst c)).
Definition c_aid (c : call) : Z := snd (fst (fst c)).
Definition c_het (c : call) : bool := snd (fst c).
Definition c_phase (c : call) : dphase := snd c.
Definition same_variant (a b : call) : bool := Z.eqb (c_pos a) (c_pos b) && Z.eqb (c_aid a) (c_aid b).

Definition het_in (t : list call) (c : call) : bool := existsb (fun d => same_variant c d && c_het d) t.
(* collect_common_variants + sorted(): variants heterozygous in every table, in position order *)
Definition common_variants (ts : list (list call)) : list call :=
  match ts with
  | [] => []
  | t0 :: _ => filter (fun c => c_het c && forallb (fun t => het_in t c) ts) t0
  end.
Definition phase_in (t : list call) (c : call) : dphase :=
  match find (same_variant c) t with Some d => c_phase d | None => None end.
(* phases[i][variant_index] *)
Definition phases_of (ts : list (list call)) : list (list dphase) :=
  map (fun t => map (phase_in t) (common_variants ts)) ts.
Definition ids_of (ts : list (list call)) : list (list (option Z)) :=
  map (fun c => map (fun t => option_map fst (phase_in t c)) ts) (common_variants ts).

Definition allele_at (j : bool) (ph : list dphase) (i : nat) : bool :=
  match nth i ph None with Some (_, (a0, a1)) => if j then a1 else a0 | None => false end.
(* "".join(str(phases[d][i].phase[j]) for i in block) *)
Definition hap_of_block (ph : list dphase) (j : bool) (block : list nat) : hap := map (allele_at j ph) block.

Record pair_state := PS {
  ps_total : phasing_errors;          (* total_errors *)
  ps_pairs : nat;                     (* phased_pairs *)
  ps_compared : nat;                  (* total_compared_variants *)
  ps_longest : nat;                   (* longest_block *)
  ps_longest_err : phasing_errors;    (* longest_block_errors *)
  ps_longest_pos : list Z;            (* longest_block_positions *)
  ps_longest_agree : list bool;       (* longest_block_agreement *)
  ps_bed : list (Z * Z)               (* bed_records (start, end) *)
}.
Definition pe_zero := PE 0 0 (0, 0) 0.
Definition pe_add (a b : phasing_errors) : phasing_errors :=
  PE (pe_switches a + pe_switches b) (pe_hamming a + pe_hamming b)
     (fst (pe_sf a) + fst (pe_sf b), snd (pe_sf a) + snd (pe_sf b)) (pe_diff a + pe_diff b).
Definition ps_init := PS pe_zero 0 0 0 pe_zero [] [] [].

(* one iteration of the loop over block_intersection.values() in compare_pair (ploidy 2) *)
Definition pair_step (agree : phasing2 -> phasing2 -> list bool) (ph0 ph1 : list dphase) (positions : list Z)
                     (st : option pair_state) (block : list nat) : option pair_state :=
  match st with
  | None => None
  | Some s =>
    if Nat.ltb (length block) 2 then Some s else
    let p0 := (hap_of_block ph0 false block, hap_of_block ph0 true block) in
    let p1 := (hap_of_block ph1 false block, hap_of_block ph1 true block) in
    let bpos := map (fun i => nth i positions 0%Z) block in
    match compare_block_dip p0 p1 with
    | None => None
    | Some e =>
      let longer := Nat.ltb (ps_longest s) (length block) in
      Some (PS (pe_add (ps_total s) e)
               (ps_pairs s + (length block - 1))
               (ps_compared s + length block)
               (if longer then length block else ps_longest s)
               (if longer then e else ps_longest_err s)
               (if longer then bpos else ps_longest_pos s)
               (if longer then agree p0 p1 else ps_longest_agree s)
               (ps_bed s ++ bed_records (fst p0) (fst p1) bpos))
    end
  end.

(* compare() for two diploid data sets: (intersection_block_count, intersection_block_variants, final state) *)
Definition compare2_with (agree : phasing2 -> phasing2 -> list bool) (t0 t1 : list call)
  : nat * nat * option pair_state :=
  let ts := [t0; t1] in
  let blocks := map snd (block_intersection (ids_of ts)) in
  let big := filter (fun b => Nat.ltb 1 (length b)) blocks in
  let positions := map c_pos (common_variants ts) in
  let ph := phases_of ts in
  (length big, fold_right (fun b acc => length b + acc) 0 big,
   fold_left (pair_step agree (nth 0 ph []) (nth 1 ph []) positions) blocks (Some ps_init)).
Definition compare2 := compare2_with agreement.

(* -- compare_multiway: histogram of canonical switch patterns -- *)
Fixpoint lex_ltb (a b : list bool) : bool :=     (* python string '<' on 0/1 strings *)
  match a, b with
  | [], [] => false
  | [], _ :: _ => true
  | _ :: _, [] => false
  | x :: a', y :: b' => if xorb x y then negb x else lex_ltb a' b'
  end.
Definition hap_min (a b : hap) : hap := if lex_ltb b a then b else a.      (* min(a, b) *)
Fixpoint hist_add (s : hap) (h : list (hap * nat)) : list (hap * nat) :=    (* kept sorted by key *)
  match h with
  | [] => [(s, 1)]
  | (k, c) :: t => if hap_eqb k s then (k, S c) :: t
                   else if lex_ltb s k then (s, 1) :: h else (k, c) :: hist_add s t
  end.
(* columns of a list of equally long rows *)
Fixpoint transpose (n : nat) (rows : list hap) : list hap :=
  match n with
  | 0 => []
  | S m => map (fun r => match r with x :: _ => x | [] => false end) rows
           :: transpose m (map (fun r => match r with _ :: t => t | [] => [] end) rows)
  end.
Definition multiway_block (phs : list (list dphase)) (h : nat * list (hap * nat)) (block : list nat) :=
  if Nat.ltb (length block) 2 then h else
  let sws := map (fun ph => switch_encoding (hap_of_block ph false block)) phs in
  (fst h + (length block - 1),
   fold_left (fun acc s => hist_add (hap_min s (complement s)) acc) (transpose (length block - 1) sws) (snd h)).
(* (total_compared, sorted histogram) *)
Definition compare_multiway (ts : list (list call)) : nat * list (hap * nat) :=
  fold_left (multiway_block (phases_of ts)) (map snd (block_intersection (ids_of ts))) (0, []).

(* ============================================================================================ *)
(* 3. Specification side for switch errors: explicit switch transformations                     *)
(* ============================================================================================ *)

(* A switch at point j (between variant j and variant j+1) exchanges the two haplotypes from variant
   j+1 on; on one 0/1 haplotype string of a heterozygous block that is: complement the suffix. *)
Definition switch_at (j : nat) (p : hap) : hap := firstn (S j) p ++ complement (skipn (S j) p).
Definition apply_switches (ss : list nat) (p : hap) : hap := fold_right switch_at p ss.
(* ss turns p0 into p1 or into its complement (the other haplotype of the same phasing) *)
Definition transforms (ss : list nat) (p0 p1 : hap) : bool :=
  hap_eqb (apply_switches ss p0) p1 || hap_eqb (apply_switches ss p0) (complement p1).

(* brute force: all subsets of the switch points 0 .. m-1, smallest cardinality that transforms *)
Fixpoint subsets (l : list nat) : list (list nat) :=
  match l with
  | [] => [[]]
  | a :: t => subsets t ++ map (cons a) (subsets t)
  end.
Definition min_switches_bf (p0 p1 : hap) : option nat :=
  fold_right (fun ss acc => if transforms ss p0 p1
                           then match acc with Some m => Some (Nat.min m (length ss)) | None => Some (length ss) end
                           else acc)
             None (subsets (seq 0 (length p0 - 1))).

(* ============================================================================================ *)
(* 4. Polyploid: switch/flip cost over sequences of haplotype permutations                      *)
(* ============================================================================================ *)

(* minimum of a list of costs (0 for the empty list; all uses are on non-empty lists) *)
Definition lmin (l : list N) : N :=
  match l with [] => 0%N | a :: t => fold_right N.min a t end.

Definition perm := list nat.          (* p[i] = row of phasing0 assigned to row i of phasing1 *)

Fixpoint insert_all (a : nat) (l : list nat) : list (list nat) :=
  match l with
  | [] => [[a]]
  | b :: t => (a :: l) :: map (cons b) (insert_all a t)
  end.
Fixpoint perms_of (l : list nat) : list (list nat) :=
  match l with
  | [] => [[]]
  | a :: t => flat_map (insert_all a) (perms_of t)
  end.
(* SwitchFlipCalculator::getPermutations (as a set; the order is irrelevant for a minimum) *)
Definition perms (k : nat) : list perm := perms_of (seq 0 k).

(* a column = the alleles of the k haplotypes at one position *)
Definition column := list Z.
Definition cols := list (column * column).     (* (phasing0[pos], phasing1[pos]) per position *)

(* getNumFlips: #{ i : phase0[perm[i]] != phase1[i] } *)
Fixpoint num_flips (p : perm) (c0 c1 : column) : N :=
  match p, c1 with
  | pi :: pt, b :: t1 => ((if Z.eqb (nth pi c0 0%Z) b then 0 else 1) + num_flips pt c0 t1)%N
  | _, _ => 0%N
  end.
(* getNumSwitches: number of positions at which two permutations differ *)
Fixpoint num_switches (p q : perm) : N :=
  match p, q with
  | a :: pt, b :: qt => ((if Nat.eqb a b then 0 else 1) + num_switches pt qt)%N
  | _, _ => 0%N
  end.

(* -- specification: cost of one sequence of permutations (one per position), and the minimum over all -- *)
Fixpoint path_sf_from (prev : perm) (path : list perm) (cs : cols) : N * N :=    (* (switches, flips) *)
  match path, cs with
  | p :: pt, (c0, c1) :: ct =>
      let r := path_sf_from p pt ct in
      ((num_switches p prev + fst r)%N, (num_flips p c0 c1 + snd r)%N)
  | _, _ => (0%N, 0%N)
  end.
Definition path_sf (path : list perm) (cs : cols) : N * N :=
  match path, cs with
  | p :: pt, (c0, c1) :: ct => let r := path_sf_from p pt ct in (fst r, (num_flips p c0 c1 + snd r)%N)
  | _, _ => (0%N, 0%N)
  end.
Definition path_cost (sc fc : N) (path : list perm) (cs : cols) : N :=
  (sc * fst (path_sf path cs) + fc * snd (path_sf path cs))%N.

Fixpoint all_paths (P : list perm) (n : nat) : list (list perm) :=
  match n with
  | 0 => [[]]
  | S m => flat_map (fun p => map (cons p) (all_paths P m)) P
  end.
Definition sf_spec (sc fc : N) (k : nat) (cs : cols) : N :=
  lmin (map (fun path => path_cost sc fc path cs) (all_paths (perms k) (length cs))).

(* -- the dynamic program of SwitchFlipCalculator::compare without the dominance pruning -- *)
Definition dp_init (fc : N) (P : list perm) (c0 c1 : column) : list (perm * N) :=
  map (fun p => (p, (fc * num_flips p c0 c1)%N)) P.
Definition dp_step (sc fc : N) (P : list perm) (tbl : list (perm * N)) (c0 c1 : column) : list (perm * N) :=
  map (fun p => (p, (lmin (map (fun e => (snd e + sc * num_switches p (fst e))%N) tbl)
                     + fc * num_flips p c0 c1)%N)) P.
Fixpoint dp_run (sc fc : N) (P : list perm) (tbl : list (perm * N)) (cs : cols) : list (perm * N) :=
  match cs with
  | [] => tbl
  | (c0, c1) :: ct => dp_run sc fc P (dp_step sc fc P tbl c0 c1) ct
  end.
Definition sf_dp (sc fc : N) (k : nat) (cs : cols) : N :=
  match cs with
  | [] => 0%N
  | (c0, c1) :: ct => lmin (map snd (dp_run sc fc (perms k) (dp_init fc (perms k) c0 c1) ct))
  end.

(* the set of (switches, flips) decompositions of minimum-cost sequences (the C++ code returns one of
   them, which one depends on tie-breaking): same DP carrying all optimal decompositions *)
Definition nn_eqb (a b : N * N) : bool := N.eqb (fst a) (fst b) && N.eqb (snd a) (snd b).
Fixpoint nn_union (a b : list (N * N)) : list (N * N) :=
  match a with
  | [] => b
  | x :: t => if existsb (nn_eqb x) b then nn_union t b else x :: nn_union t b
  end.
Definition dec_entry := (perm * (N * list (N * N)))%type.     (* perm, best cost, its decompositions *)
Definition best_of (cands : list (N * list (N * N))) : N * list (N * N) :=
  let m := lmin (map fst cands) in
  (m, fold_right (fun c acc => if N.eqb (fst c) m then nn_union (snd c) acc else acc) [] cands).
Definition dec_init (fc : N) (P : list perm) (c0 c1 : column) : list dec_entry :=
  map (fun p => let f := num_flips p c0 c1 in (p, ((fc * f)%N, [(0%N, f)]))) P.
Definition dec_step (sc fc : N) (P : list perm) (tbl : list dec_entry) (c0 c1 : column) : list dec_entry :=
  map (fun p =>
         let f := num_flips p c0 c1 in
         let b := best_of (map (fun e : dec_entry =>
                                  let d := num_switches p (fst e) in
                                  ((fst (snd e) + sc * d)%N,
                                   map (fun sf : N * N => ((fst sf + d)%N, snd sf)) (snd (snd e)))) tbl) in
         (p, ((fst b + fc * f)%N, map (fun sf : N * N => (fst sf, (snd sf + f)%N)) (snd b)))) P.
Fixpoint dec_run (sc fc : N) (P : list perm) (tbl : list dec_entry) (cs : cols) : list dec_entry :=
  match cs with
  | [] => tbl
  | (c0, c1) :: ct => dec_run sc fc P (dec_step sc fc P tbl c0 c1) ct
  end.
Definition sf_optimal_decompositions (sc fc : N) (k : nat) (cs : cols) : list (N * N) :=
  match cs with
  | [] => [(0%N, 0%N)]
  | (c0, c1) :: ct => snd (best_of (map snd (dec_run sc fc (perms k) (dec_init fc (perms k) c0 c1) ct)))
  end.

(* permuting the rows (haplotypes) of a phasing: new row i = old row s[i] *)
Definition permute_col (s : perm) (c : column) : column := map (fun i => nth i c 0%Z) s.
Definition permute0 (s : perm) (cs : cols) : cols := map (fun c => (permute_col s (fst c), snd c)) cs.
Definition permute1 (s : perm) (cs : cols) : cols := map (fun c => (fst c, permute_col s (snd c))) cs.

(* -- compare_block for ploidy > 2 (and the pieces shared with ploidy 2) on haplotype-wise input -- *)
Definition count_z (a : Z) (l : list Z) : nat := length (filter (Z.eqb a) l).
(* Genotype(col0) == Genotype(col1): equal allele multisets *)
Definition geno_eqb (c0 c1 : column) : bool :=
  Nat.eqb (length c0) (length c1) && forallb (fun a => Nat.eqb (count_z a c0) (count_z a c1)) (c0 ++ c1).
(* haplotype-wise (k strings of length n) -> position-wise columns *)
Fixpoint columns_of (n : nat) (rows : list (list Z)) : list column :=
  match n with
  | 0 => []
  | S m => map (fun r => match r with x :: _ => x | [] => 0%Z end) rows
           :: columns_of m (map (fun r => match r with _ :: t => t | [] => [] end) rows)
  end.
Definition zhamming (a b : list Z) : N := N.of_nat (hamming_by (fun x y => negb (Z.eqb x y)) a b).
Fixpoint sum_hamming (r1 r0 : list (list Z)) : N :=
  match r1, r0 with
  | a :: t1, b :: t0 => (zhamming a b + sum_hamming t1 t0)%N
  | _, _ => 0%N
  end.
(* minimum over all orders of phasing0 of the summed Hamming distances (numerator; reported / ploidy) *)
Definition poly_hamming_num (ph0 ph1 : list (list Z)) : N :=
  lmin (map (fun p => sum_hamming ph1 (map (fun i => nth i ph0 []) p)) (perms (length ph0))).

Record poly_errors := PPE {
  ppe_switches_num : N;       (* reported switches * ploidy *)
  ppe_hamming_num : N;        (* reported hamming * ploidy *)
  ppe_sf_cost : N;            (* (reported sf.switches + sf.flips) * ploidy *)
  ppe_sf_allowed : list (N * N);  (* allowed (sf.switches, sf.flips) * ploidy *)
  ppe_diff : nat
}.
Definition compare_block_poly (ph0 ph1 : list (list Z)) : poly_errors :=
  let k := length ph0 in
  let n := match ph0 with r :: _ => length r | [] => 0 end in
  let cs := combine (columns_of n ph0) (columns_of n ph1) in
  let matched := filter (fun c => geno_eqb (fst c) (snd c)) cs in
  let big := (2 * N.of_nat n * N.of_nat k + 1)%N in
  PPE (sf_dp 1 big k matched)
      (poly_hamming_num ph0 ph1)
      (sf_dp 1 1 k cs)
      (sf_optimal_decompositions 1 1 k cs)
      (length cs - length matched).

(* ============================================================================================ *)
(* 5. compare() / compare_pair for ploidy > 2 (numbers as numerators: reported value * ploidy)   *)
(* ============================================================================================ *)

(* polyploid call: phase = Some (block_id, alleles of haplotype 0 .. k-1) *)
Definition pcall := (Z * Z * bool * option (Z * list Z))%type.
Definition strip (c : pcall) : call :=
  (fst (fst (fst c)), snd (fst (fst c)), snd (fst c),
   option_map (fun x : Z * list Z => (fst x, (false, false))) (snd c)).
Definition palleles (t : list pcall) (c : call) : list Z :=
  match find (fun d => same_variant c (strip d)) t with
  | Some (_, Some (_, al)) => al
  | _ => []
  end.
Definition dummy_call : call := (0%Z, 0%Z, false, None).
(* phasing (k haplotype strings) of a block in table t *)
Definition prows (k : nat) (t : list pcall) (common : list call) (block : list nat) : list (list Z) :=
  map (fun j => map (fun i => nth j (palleles t (nth i common dummy_call)) 0%Z) block) (seq 0 k).

Record ppair_state := PPS {
  pps_switches : N; pps_hamming : N; pps_sf_cost : N; pps_diff : nat;     (* totals *)
  pps_pairs : nat; pps_compared : nat;
  pps_longest : nat; pps_longest_err : poly_errors; pps_longest_pos : list Z
}.
Definition ppe_zero := PPE 0 0 0 [(0%N, 0%N)] 0.
Definition ppair_step (k : nat) (t0 t1 : list pcall) (common : list call)
                      (s : ppair_state) (block : list nat) : ppair_state :=
  if Nat.ltb (length block) 2 then s else
  let e := compare_block_poly (prows k t0 common block) (prows k t1 common block) in
  let longer := Nat.ltb (pps_longest s) (length block) in
  PPS (pps_switches s + ppe_switches_num e) (pps_hamming s + ppe_hamming_num e)
      (pps_sf_cost s + ppe_sf_cost e) (pps_diff s + ppe_diff e)
      (pps_pairs s + (length block - 1)) (pps_compared s + length block)
      (if longer then length block else pps_longest s)
      (if longer then e else pps_longest_err s)
      (if longer then map (fun i => c_pos (nth i common dummy_call)) block else pps_longest_pos s).
Definition compare2_poly (k : nat) (t0 t1 : list pcall) : nat * nat * ppair_state :=
  let ts := [map strip t0; map strip t1] in
  let common := common_variants ts in
  let blocks := map snd (block_intersection (ids_of ts)) in
  let big := filter (fun b => Nat.ltb 1 (length b)) blocks in
  (length big, fold_right (fun b acc => length b + acc) 0 big,
   fold_left (ppair_step k t0 t1 common) blocks (PPS 0 0 0 0 0 0 0 ppe_zero [])).

(* ============================================================================================ *)
(* 6. helpers for comparing reported values with the model                                      *)
(* ============================================================================================ *)
Fixpoint natlist_eqb (a b : list nat) : bool :=
  match a, b with
  | [], [] => true
  | x :: a', y :: b' => Nat.eqb x y && natlist_eqb a' b'
  | _, _ => false
  end.
Definition zz_eqb (a b : Z * Z) : bool := Z.eqb (fst a) (fst b) && Z.eqb (snd a) (snd b).
Fixpoint zzlist_eqb (a b : list (Z * Z)) : bool :=
  match a, b with
  | [], [] => true
  | x :: a', y :: b' => zz_eqb x y && zzlist_eqb a' b'
  | _, _ => false
  end.
Definition zz_leb (a b : Z * Z) : bool :=
  Z.ltb (fst a) (fst b) || (Z.eqb (fst a) (fst b) && Z.leb (snd a) (snd b)).
Fixpoint zz_insert (x : Z * Z) (l : list (Z * Z)) : list (Z * Z) :=
  match l with
  | [] => [x]
  | y :: t => if zz_leb x y then x :: l else y :: zz_insert x t
  end.
Definition zz_sort (l : list (Z * Z)) : list (Z * Z) := fold_right zz_insert [] l.
Definition pe_eqb (a b : phasing_errors) : bool :=
  Nat.eqb (pe_switches a) (pe_switches b) && Nat.eqb (pe_hamming a) (pe_hamming b) &&
  Nat.eqb (fst (pe_sf a)) (fst (pe_sf b)) && Nat.eqb (snd (pe_sf a)) (snd (pe_sf b)) &&
  Nat.eqb (pe_diff a) (pe_diff b).
Fixpoint hist_eqb (a b : list (hap * nat)) : bool :=
  match a, b with
  | [], [] => true
  | (k, c) :: a', (k', c') :: b' => hap_eqb k k' && Nat.eqb c c' && hist_eqb a' b'
  | _, _ => false
  end.

(* ============================================================================================ *)
(* 7. Specification of ONE pairwise report, computed from the two tables of the pair only        *)
(*    (no reference to other input files, to dict order or to the model of compare_pair)         *)
(* ============================================================================================ *)
Section PairSpec.
Variable A : Type.                              (* alleles of one call: (bool*bool) or list Z *)
Definition gcall := (Z * Z * bool * option (Z * A))%type.
Definition g_same (a b : gcall) : bool :=
  Z.eqb (fst (fst (fst a))) (fst (fst (fst b))) && Z.eqb (snd (fst (fst a))) (snd (fst (fst b))).
(* variants heterozygous and phased in both files: (block id, alleles) of file 0 and of file 1 *)
Definition both_phased (t0 t1 : list gcall) : list ((Z * A) * (Z * A)) :=
  flat_map (fun c : gcall =>
              match snd (fst c), snd c with
              | true, Some x0 =>
                  match find (g_same c) t1 with
                  | Some d => match snd (fst d), snd d with
                              | true, Some x1 => [(x0, x1)]
                              | _, _ => []
                              end
                  | None => []
                  end
              | _, _ => []
              end) t0.
Fixpoint zz_dedupe (l : list (Z * Z)) : list (Z * Z) :=
  match l with
  | [] => []
  | x :: t => if existsb (zz_eqb x) t then zz_dedupe t else x :: zz_dedupe t
  end.
(* the jointly phased blocks with at least two variants: per variant the alleles in file 0 and in file 1 *)
Definition spec_blocks (t0 t1 : list gcall) : list (list (A * A)) :=
  let rows := both_phased t0 t1 in
  let key := fun r : (Z * A) * (Z * A) => (fst (fst r), fst (snd r)) in
  filter (fun b => Nat.leb 2 (length b))
         (map (fun k => map (fun r => (snd (fst r), snd (snd r))) (filter (fun r => zz_eqb (key r) k) rows))
              (zz_dedupe (map key rows))).
End PairSpec.
Arguments spec_blocks {A} t0 t1.

Definition list_max (l : list nat) : nat := fold_right Nat.max 0 l.

(* diploid: (blocks, covered variants, assessed pairs, switches, hamming, longest length,
             (switches, hamming) of every block of the longest length) *)
Definition dip_block_spec (b : list ((bool * bool) * (bool * bool))) : nat * nat :=
  let p0 := map (fun r => fst (fst r)) b in
  let p1 := map (fun r => fst (snd r)) b in
  ((if Nat.leb (length p0) 11
    then match min_switches_bf p0 p1 with Some m => m | None => 0 end
    else hamming (switch_encoding p0) (switch_encoding p1)),
   Nat.min (hamming p0 p1) (hamming p0 (complement p1))).
Definition pair_spec (t0 t1 : list call) : nat * nat * nat * nat * nat * nat * list (nat * nat) :=
  let bs := spec_blocks t0 t1 in
  let lens := map (@length _) bs in
  let mx := list_max lens in
  (length bs, fold_right Nat.add 0 lens, fold_right Nat.add 0 (map (fun n => n - 1) lens),
   fold_right Nat.add 0 (map (fun b => fst (dip_block_spec b)) bs),
   fold_right Nat.add 0 (map (fun b => snd (dip_block_spec b)) bs),
   mx, map dip_block_spec (filter (fun b => Nat.eqb (length b) mx) bs)).

(* polyploid (numerators): (blocks, covered, pairs, switches, hamming, sf cost, diff genotypes, longest length,
                            (switches, hamming, sf cost, diff) of every block of the longest length) *)
Definition poly_block_spec (k : nat) (b : list (list Z * list Z)) : N * N * N * nat :=
  let e := compare_block_poly (map (fun j => map (fun r => nth j (fst r) 0%Z) b) (seq 0 k))
                              (map (fun j => map (fun r => nth j (snd r) 0%Z) b) (seq 0 k)) in
  (ppe_switches_num e, ppe_hamming_num e, ppe_sf_cost e, ppe_diff e).
Definition nsum_list (l : list N) : N := fold_right N.add 0%N l.
Definition pair_spec_poly (k : nat) (t0 t1 : list pcall)
  : nat * nat * nat * N * N * N * nat * nat * list (N * N * N * nat) :=
  let bs := spec_blocks t0 t1 in
  let lens := map (@length _) bs in
  let mx := list_max lens in
  let es := map (poly_block_spec k) bs in
  (length bs, fold_right Nat.add 0 lens, fold_right Nat.add 0 (map (fun n => n - 1) lens),
   nsum_list (map (fun e => fst (fst (fst e))) es), nsum_list (map (fun e => snd (fst (fst e))) es),
   nsum_list (map (fun e => snd (fst e)) es), fold_right Nat.add 0 (map (fun e => snd e) es),
   mx, map (poly_block_spec k) (filter (fun b => Nat.eqb (length b) mx) bs)).
