(* Executable model of the genotyping forward-backward algorithm of whatshap (property C08):
     src/genotypedptable.cpp (compute_index, compute_backward_prob / compute_backward_column,
       compute_forward_prob / compute_forward_column incl. the scaling sums, the sqrt check-pointing of
       the backward projection columns and their re-computation, get_genotype_likelihoods),
     src/genotypecolumncostcomputer.cpp (emission products per partition, get_cost),
     src/transitionprobabilitycomputer.cpp (row-normalised transmission transitions; genotype-prior
       weighted allele-assignment factors divided by the multiplicity of the genotype vector, normalised),
     src/pedigreepartitions.cpp, src/columnindexingscheme.cpp / columnindexingiterator.cpp (backward
       projection = low bits, forward projection = bits of the reads still active in the next column),
   together with the executable specification side: the plain (brute force) posterior of the hidden
   Markov model whose states are (read bipartition, transmission value, allele assignment).
   ssreflect style definitions, plain structural recursion / foldr only (vm_compute evaluates them).
   Model only: no lemmas here.

   The number type is a parameter (Section variables F, f0, f1, fadd, fsub, fmul, fdiv, feq0): the
   correspondence check instantiates it with exact rationals (Bignums' BigQ) and the theorems
   (proofs/GenotypeHMMProofs.v) instantiate it with an arbitrary mathcomp fieldType (e.g. rat).

   Conventions
     * a bipartition of the reads of a column is a seq bool, one bit per active read in read order
       (bit k of ColumnIndexingIterator's index); bit = false  <->  "entry_in_partition1"  <->  the read
       lies on haplotype 1 of its individual, bit = true <-> haplotype 0 (set_partitioning);
     * transmission values are numbers < 4^(number of trios), allele assignments numbers
       < 2^(number of partitions); bit p of an assignment is the allele of partition p;
     * tables indexed by an integer projection in the code are functions of the projected bit list
       here, memoised as association lists (memo) so that evaluation cost stays polynomial;
     * sums over the allele assignment that the code performs in its innermost loop are factored out
       (distributivity) where the summand does not depend on it: L x i = sum_a cost_i(x,a) * paa(i,a);
     * the incremental multiply/divide update of the emission products along the Gray code
       (update_partitioning) is modelled by the product it maintains (equal in exact arithmetic since
       p and 1-p are nonzero). *)
From mathcomp Require Import ssreflect ssrfun ssrbool eqtype ssrnat div seq.
Set Implicit Arguments.
Unset Strict Implicit.
Unset Printing Implicit Defensive.

(* all bit vectors of a length; all sequences of a length over an alphabet *)
Fixpoint bitvecs (n : nat) : seq (seq bool) :=
  if n is n'.+1 then [seq b :: v | b <- [:: false; true], v <- bitvecs n'] else [:: [::]].
Fixpoint seqs (T : Type) (S : seq T) (n : nat) : seq (seq T) :=
  if n is n'.+1 then [seq s :: p | s <- S, p <- seqs S n'] else [:: [::]].

(* bit k of a number *)
Definition tbit (v k : nat) : bool := odd (v %/ 2 ^ k).
(* (size_t) sqrt(n) *)
Definition isqrt (n : nat) : nat := find (fun r => n < r.+1 * r.+1) (iota 0 n.+1).
(* the bits of beta at the given read ids *)
Definition pickb (ids : seq nat) (beta : seq bool) : seq bool := [seq nth false beta i | i <- ids].

(* ---------------------------------------------------------------- pedigree partitions *)
Definition trio := (nat * nat * nat)%type.       (* father, mother, child: individual indices *)
Record ped := Ped { p_nind : nat; p_trios : seq trio }.

Definition ntrans (P : ped) : nat := 4 ^ size (p_trios P).
Definition npart (P : ped) : nat := 2 * (p_nind P - size (p_trios P)).
Definition nassign (P : ped) : nat := 2 ^ npart P.

(* index of the triple in which i is the child (the last one wins, as in the constructor's loop) *)
Definition triple_index (ts : seq trio) (i : nat) : option nat :=
  foldl (fun acc k => if (nth (0, 0, 0) ts k).2 == i then Some k else acc) None (iota 0 (size ts)).
Definition root_part (ts : seq trio) (i : nat) : nat :=
  2 * count (fun j => ~~ isSome (triple_index ts j)) (iota 0 i).
Fixpoint h2p_rec (fuel : nat) (ts : seq trio) (tv i : nat) : option (nat * nat) :=
  if fuel is fuel'.+1 then
    match triple_index ts i with
    | None => Some (root_part ts i, (root_part ts i).+1)
    | Some k =>
        let t := nth (0, 0, 0) ts k in
        match h2p_rec fuel' ts tv t.1.1, h2p_rec fuel' ts tv t.1.2 with
        | Some pf, Some pm =>
            Some (if tbit tv (2 * k) then pf.1 else pf.2, if tbit tv (2 * k + 1) then pm.1 else pm.2)
        | _, _ => None
        end
    end
  else None.
(* haplotype_to_partition(individual, haplotype) for the transmission value tv *)
Definition h2p (P : ped) (tv ind : nat) (hap : bool) : nat :=
  match h2p_rec (p_nind P).+1 (p_trios P) tv ind with
  | Some pq => if hap then pq.2 else pq.1
  | None => 0
  end.
Definition ped_ok (P : ped) : bool :=
  (size (p_trios P) <= p_nind P) &&
  all (fun tv => all (fun ind => match h2p_rec (p_nind P).+1 (p_trios P) tv ind with
                                 | Some pq => (pq.1 < npart P) && (pq.2 < npart P)
                                 | None => false end) (iota 0 (p_nind P)))
      (iota 0 (ntrans P)).
(* genotype index (number of ALT alleles) of an individual under (transmission, allele assignment) *)
Definition geno (P : ped) (tv a ind : nat) : nat :=
  tbit a (h2p P tv ind false) + tbit a (h2p P tv ind true).

(* number of allele assignments that induce the same genotype vector as a *)
Definition gvec (P : ped) (tv a : nat) : seq nat := [seq geno P tv a ind | ind <- iota 0 (p_nind P)].
Definition gcount (P : ped) (tv a : nat) : nat :=
  count (fun a' => gvec P tv a' == gvec P tv a) (iota 0 (nassign P)).

(* memoised versions (tables computed once per pedigree); equal to h2p / geno / gcount on the valid
   index ranges *)
Definition h2p_memo (P : ped) : nat -> nat -> bool -> nat :=
  let t := [seq [seq (h2p P tv ind false, h2p P tv ind true) | ind <- iota 0 (p_nind P)] | tv <- iota 0 (ntrans P)] in
  fun tv ind hap => let pq := nth (0, 0) (nth [::] t tv) ind in if hap then pq.2 else pq.1.
Definition geno_memo (P : ped) : nat -> nat -> nat -> nat :=
  let t := [seq [seq gvec P tv a | a <- iota 0 (nassign P)] | tv <- iota 0 (ntrans P)] in
  fun tv a ind => nth 0 (nth [::] (nth [::] t tv) a) ind.
Definition gcount_memo (P : ped) : nat -> nat -> nat :=
  let g := [seq [seq gvec P tv a | a <- iota 0 (nassign P)] | tv <- iota 0 (ntrans P)] in
  let t := [seq [seq count (fun r' => r' == r) row | r <- row] | row <- g] in
  fun tv a => nth 0 (nth [::] t tv) a.

Section Numbers.
Variable F : Type.
Variables (f0 f1 : F) (fadd fsub fmul fdiv : F -> F -> F) (feq0 : F -> bool).

Definition fsum (s : seq F) : F := foldr fadd f0 s.
Definition fprod (s : seq F) : F := foldr fmul f1 s.
Definition fnat (n : nat) : F := fsum (nseq n f1).
Definition fpow (x : F) (n : nat) : F := fprod (nseq n x).

(* ---------------------------------------------------------------- memoised tables *)
Definition table := seq (seq bool * seq F).
Fixpoint tassoc (t : table) (k : seq bool) : seq F :=
  if t is kr :: t' then if kr.1 == k then kr.2 else tassoc t' k else [::].
Definition memo (w tn : nat) (f : seq bool -> nat -> F) : seq bool -> nat -> F :=
  let t := [seq (k, [seq f k j | j <- iota 0 tn]) | k <- bitvecs w] in
  fun k j => nth f0 (tassoc t k) j.
(* a function of (bits, i, a) stored as a table with the flat index i * na + a *)
Definition memo3 (w tn na : nat) (f : seq bool -> nat -> nat -> F) : seq bool -> nat -> nat -> F :=
  let t := memo w (tn * na) (fun x j => f x (j %/ na) (j %% na)) in
  fun x i a => t x (i * na + a).
Definition memo_nat2 (n1 n2 : nat) (f : nat -> nat -> F) : nat -> nat -> F :=
  let t := [seq [seq f i j | j <- iota 0 n2] | i <- iota 0 n1] in
  fun i j => nth f0 (nth [::] t i) j.

(* ---------------------------------------------------------------- instances *)
(* one entry of a matrix column: read id, individual (index) of the read, allele (None = BLANK,
   Some false = REF, Some true = ALT), error probability p_q of its quality (harness-supplied table) *)
Record entry := Entry { e_read : nat; e_src : nat; e_allele : option bool; e_p : F }.
(* a column: the entries of the active reads in read order, the genotype priors (one triple
   [p(0/0); p(0/1); p(1/1)] per individual) and the recombination probability 10^(-recombcost/10) *)
Record column := Column { c_entries : seq entry; c_priors : seq (seq F); c_recomb : F }.
Record inst := Inst { i_ped : ped; i_cols : seq column }.

Definition col_ids (c : column) : seq nat := [seq e_read e | e <- c_entries c].

(* structural well-formedness (what sorted reads + ColumnIterator guarantee): read ids are numbered
   by first appearance; a column consists of the reads shared with the previous column, in order,
   followed by the new reads *)
Fixpoint wf_cols (m : nat) (prev : seq nat) (cs : seq column) : bool :=
  if cs is c :: cs' then
    let ids := col_ids c in
    let shared := [seq r <- prev | r \in ids] in
    let nnew := size ids - size shared in
    (ids == shared ++ iota m nnew) && wf_cols (m + nnew) ids cs'
  else true.
Definition wf (I : inst) : bool :=
  [&& ped_ok (i_ped I), wf_cols 0 [::] (i_cols I)
    & all (fun c => all (fun e => e_src e < p_nind (i_ped I)) (c_entries c)) (i_cols I)].

(* ---------------------------------------------------------------- local factors of one column *)
Section Column.
Variable P : ped.
(* haplotype_to_partition, genotype index and genotype-vector multiplicity: h2p P / geno P / gcount P,
   or their memoised versions *)
Variable partf : nat -> nat -> bool -> nat.
Variable genof : nat -> nat -> nat -> nat.
Variable gcntf : nat -> nat -> nat.
Variable c : column.

(* GenotypeColumnCostComputer: cost_partition[p][allele] for the bipartition x *)
Definition entry_factor (al : bool) (e : entry) : F :=
  match e_allele e with
  | None => f1
  | Some obs => if al == obs then fsub f1 (e_p e) else e_p e
  end.
Definition entry_part (tv : nat) (e : entry) (b : bool) : nat := partf tv (e_src e) (~~ b).
Definition cost_partition (tv : nat) (x : seq bool) (p : nat) (al : bool) : F :=
  fprod [seq entry_factor al eb.1 | eb <- zip (c_entries c) x & entry_part tv eb.1 eb.2 == p].
(* get_cost(a) = product over the partitions *)
Definition cost (tv : nat) (x : seq bool) (a : nat) : F :=
  fprod [seq cost_partition tv x p (tbit a p) | p <- iota 0 (npart P)].
(* the same for all a at once (shares the partition products) *)
Definition cost_row (tv : nat) (x : seq bool) : seq F :=
  let cp := [seq (cost_partition tv x p false, cost_partition tv x p true) | p <- iota 0 (npart P)] in
  [seq fprod [seq if tbit a pc.1 then pc.2.2 else pc.2.1 | pc <- zip (iota 0 (npart P)) cp]
  | a <- iota 0 (nassign P)].

(* TransitionProbabilityComputer: transmission transitions, row-normalised *)
Definition hamdist (i j : nat) : nat :=
  count (fun k => tbit i k != tbit j k) (iota 0 (2 * size (p_trios P))).
Definition bern (x : nat) : F :=
  fmul (fpow (c_recomb c) x) (fpow (fsub f1 (c_recomb c)) (2 * size (p_trios P) - x)).
Definition ttrans_raw (j i : nat) : F :=
  fdiv (bern (hamdist j i)) (fsum [seq bern (hamdist j j') | j' <- iota 0 (ntrans P)]).
(* allele-assignment factors: product of the priors of the induced genotypes, divided by the number
   of assignments inducing the same genotype vector, normalised over the assignments *)
Definition prior (ind g : nat) : F := nth f0 (nth [::] (c_priors c) ind) g.
Definition paa_unnorm (tv a : nat) : F :=
  fdiv (fprod [seq prior ind (genof tv a ind) | ind <- iota 0 (p_nind P)]) (fnat (gcntf tv a)).
Definition paa_norm (tv : nat) : F := fsum [seq paa_unnorm tv a' | a' <- iota 0 (nassign P)].
Definition paa_raw (tv a : nat) : F := fdiv (paa_unnorm tv a) (paa_norm tv).
End Column.

(* per-column context shared by both passes: sizes, projections, memoised local factors *)
Record cctx := CCtx {
  cc_k : nat;                                   (* number of active reads *)
  cc_bpw : nat;                                 (* backward projection width *)
  cc_fmask : seq bool;                          (* which reads are active in the next column *)
  cc_W : seq bool -> nat -> nat -> F;           (* cost_i(x,a) * paa(i,a) *)
  cc_L : seq bool -> nat -> F;                  (* sum over a of W *)
  cc_T : nat -> nat -> F                        (* transmission transition j -> i *)
}.
Definition cc_fw (cc : cctx) : nat := count id (cc_fmask cc).

Section Contexts.
Variable P : ped.
Variable partf : nat -> nat -> bool -> nat.
Variable genof : nat -> nat -> nat -> nat.
Variable gcntf : nat -> nat -> nat.

Definition mk_cctx (prev_ids : seq nat) (c : column) (next_ids : seq nat) : cctx :=
  let ids := col_ids c in
  let k := size ids in
  let tn := ntrans P in
  let na := nassign P in
  let pu := memo_nat2 tn na (paa_unnorm P genof gcntf c) in
  let pn := memo_nat2 tn 1 (fun i _ => fsum [seq pu i a | a <- iota 0 na]) in
  let paa := memo_nat2 tn na (fun i a => fdiv (pu i a) (pn i 0)) in
  let W := memo3 k tn na (fun x i a => fmul (nth f0 (cost_row P partf c i x) a) (paa i a)) in
  let bn := memo_nat2 1 (2 * size (p_trios P)).+1 (fun _ x => bern P c x) in
  let rs := memo_nat2 tn 1 (fun j _ => fsum [seq bn 0 (hamdist P j j') | j' <- iota 0 tn]) in
  CCtx k (count (fun r => r \in prev_ids) ids) [seq r \in next_ids | r <- ids] W
       (memo k tn (fun x i => fsum [seq W x i a | a <- iota 0 na]))
       (memo_nat2 tn tn (fun j i => fdiv (bn 0 (hamdist P j i)) (rs j 0))).

Fixpoint mk_cctxs (prev_ids : seq nat) (cs : seq column) : seq cctx :=
  if cs is c :: cs' then
    mk_cctx prev_ids c (if cs' is c' :: _ then col_ids c' else [::]) :: mk_cctxs (col_ids c) cs'
  else [::].
End Contexts.

Definition dcc : cctx := CCtx 0 0 [::] (fun _ _ _ => f0) (fun _ _ => f0) (fun _ _ => f0).

(* ---------------------------------------------------------------- one backward column *)
Section Passes.
Variable P : ped.
Variable genof : nat -> nat -> nat -> nat.
Let tn := ntrans P.
Let na := nassign P.
Let ts := iota 0 tn.

(* compute_backward_column without the table bookkeeping: from the (already scaled) projection column
   of this column (prevB, indexed by the forward projection; constant 1 for the last column) to the
   unscaled projection column for the previous column and the scaling sum *)
Definition bcol (cc : cctx) (last : bool) (prevB : seq bool -> nat -> F) : (seq bool -> nat -> F) * F :=
  let xs := bitvecs (cc_k cc) in
  let bprob := fun x i => if last then f1 else prevB (mask (cc_fmask cc) x) i in
  let lb := memo (cc_k cc) tn (fun x i => fmul (bprob x i) (cc_L cc x i)) in
  let s := fmul (fnat na) (fsum [seq fsum [seq bprob x i | i <- ts] | x <- xs]) in
  (fun sigma j =>
     fsum [seq fsum [seq fmul (lb x i) (cc_T cc j i) | i <- ts] | x <- xs & take (cc_bpw cc) x == sigma],
   s).

(* ---------------------------------------------------------------- the table of backward columns *)
Record bstate := BState {
  bt : seq (option (seq bool -> nat -> F));     (* backward_projection_column_table *)
  sc : seq F;                                   (* scaling_parameters *)
  err : bool                                    (* a missing column was dereferenced / a scaling sum was 0 *)
}.
Definition bfail (st : bstate) : bstate := BState (bt st) (sc st) true.
Definition tscale (w : nat) (t : seq bool -> nat -> F) (s : F) : seq bool -> nat -> F :=
  memo w tn (fun sigma j => fdiv (t sigma j) s).

Variable ccs : seq cctx.
Let n := size ccs.

Definition bstep (c : nat) (st : bstate) : bstate :=
  if (0 < c) && isSome (nth None (bt st) c.-1) then st else
  let last := c.+1 == n in
  let cc := nth dcc ccs c in
  match (if last then Some (fun _ _ => f1) else nth None (bt st) c) with
  | None => bfail st
  | Some prevB =>
      let cs := bcol cc last prevB in
      let s := cs.2 in
      let bt1 := if last then bt st else set_nth None (bt st) c (Some (tscale (cc_fw cc) prevB s)) in
      let bt2 := if 0 < c then set_nth None bt1 c.-1 (Some (tscale (cc_bpw cc) cs.1 s)) else bt1 in
      BState bt2 (set_nth f0 (sc st) c s) (err st || feq0 s)
  end.

Definition bdrop (c : nat) (st : bstate) : bstate := BState (set_nth None (bt st) c None) (sc st) (err st).

(* compute_backward_prob: all columns right to left, keeping every k-th projection column *)
Definition bpass (k : nat) (st : bstate) : bstate :=
  foldl (fun st c => let st' := bstep c st in
                     if (1 < k) && (c.+1 < n) && ((c.+1) %% k != 0) then bdrop c.+1 st' else st')
        st (rev (iota 0 n)).

(* the part of compute_forward_column that makes backward column c available *)
Definition bensure (k c : nat) (st : bstate) : bstate :=
  if c.+1 < n then
    if nth None (bt st) c is Some _ then st else
    let next := minn (((c + k) %/ k) * k) n.-1 in
    let st' := foldl (fun st i => bstep i st) st (rev (iota c.+1 (next - c))) in
    match nth None (bt st') c with
    | Some t => let s := nth f0 (sc st') c in
                BState (set_nth None (bt st') c (Some (tscale (cc_fw (nth dcc ccs c)) t s))) (sc st')
                       (err st' || feq0 s)
    | None => bfail st'
    end
  else st.

(* ---------------------------------------------------------------- one forward column *)
(* result: the new forward projection column, the genotype likelihoods [individual][genotype] *)
Definition fcol (cc : cctx) (first last : bool) (prevF B : seq bool -> nat -> F) (s : F)
  : (seq bool -> nat -> F) * seq (seq F) * bool :=
  let xs := bitvecs (cc_k cc) in
  (* sum_prev_values / scaling_parameters[c] (the code divides each product by the scaling parameter;
     the division is applied once per (x, i) here) *)
  let sumprev := memo (cc_k cc) tn (fun x i =>
     fdiv (if first then f1 else fsum [seq fmul (prevF (take (cc_bpw cc) x) j) (cc_T cc j i) | j <- ts]) s) in
  let fprob := memo3 (cc_k cc) tn na (fun x i a => fmul (sumprev x i) (cc_W cc x i a)) in
  let bprob := fun x i => if last then f1 else B (mask (cc_fmask cc) x) i in
  (* forward_backward summed over the bipartitions *)
  let M := memo_nat2 tn na (fun i a => fsum [seq fmul (fprob x i a) (bprob x i) | x <- xs]) in
  let norm := fsum [seq fsum [seq M i a | a <- iota 0 na] | i <- ts] in
  let lik := [seq [seq fdiv (fsum [seq fsum [seq M i a | a <- iota 0 na & genof i a ind == g] | i <- ts]) norm
                  | g <- iota 0 3] | ind <- iota 0 (p_nind P)] in
  (* forward projection: sum over the allele assignments factored as sumprev * L *)
  let newF := memo (cc_fw cc) tn (fun sigma i =>
     fsum [seq fmul (sumprev x i) (cc_L cc x i) | x <- xs & mask (cc_fmask cc) x == sigma]) in
  (newF, lik, feq0 norm).

Record fstate := FState {
  f_b : bstate;
  f_prev : seq bool -> nat -> F;                (* forward_projection_column_table[0] *)
  f_out : seq (seq (seq F))                     (* likelihoods of the columns done, [column][individual][genotype] *)
}.

Definition fstep (k : nat) (fs : fstate) (c : nat) : fstate :=
  let st := bensure k c (f_b fs) in
  let cc := nth dcc ccs c in
  let last := c.+1 == n in
  match (if last then Some (fun _ _ => f1) else nth None (bt st) c) with
  | None => FState (bfail st) (f_prev fs) (rcons (f_out fs) [::])
  | Some B =>
      let r := fcol cc (c == 0) last (f_prev fs) B (nth f0 (sc st) c) in
      FState (BState (set_nth None (bt st) c None) (sc st) (err st || feq0 (nth f0 (sc st) c) || r.2))
             r.1.1 (rcons (f_out fs) r.1.2)
  end.

(* the whole run with the backward projection columns check-pointed every k-th column *)
Definition fb_run_state_k (k : nat) : fstate :=
  let st0 := BState (nseq n None) (nseq n (fsub f0 f1)) false in
  foldl (fstep k) (FState (bpass k st0) (fun _ _ => f1) [::]) (iota 0 n).
(* GenotypeDPTable uses k = (size_t) sqrt(number of columns) *)
Definition fb_run_state : fstate := fb_run_state_k (isqrt n).

End Passes.

(* GenotypeDPTable: the likelihood table [column][individual][genotype]; None if the run
   dereferenced a missing column or divided by a zero scaling sum / normalisation *)
Definition fb_run (I : inst) : option (seq (seq (seq F))) :=
  let P := i_ped I in
  let genof := geno_memo P in
  let ccs := mk_cctxs P (h2p_memo P) genof (gcount_memo P) [::] (i_cols I) in
  let fs := fb_run_state P genof ccs in
  if err (f_b fs) then None else Some (f_out fs).

(* the same run with an arbitrary check-pointing stride (specification side: the result does not
   depend on it) *)
Definition fb_run_k (k : nat) (I : inst) : option (seq (seq (seq F))) :=
  let P := i_ped I in
  let genof := geno_memo P in
  let ccs := mk_cctxs P (h2p_memo P) genof (gcount_memo P) [::] (i_cols I) in
  let fs := fb_run_state_k P genof ccs k in
  if err (f_b fs) then None else Some (f_out fs).

Definition fb_likelihood (I : inst) (c ind g : nat) : F :=
  if fb_run I is Some out then nth f0 (nth [::] (nth [::] out c) ind) g else f0.

(* ---------------------------------------------------------------- specification side *)
(* a column as the hidden Markov model sees it: the ids of the active reads, the local factor
   W x i a (emission of the column's entries under the bipartition x of its reads * allele-assignment
   factor) and the transmission transition T j i into this column *)
Record scol := SCol { s_ids : seq nat; s_W : seq bool -> nat -> nat -> F; s_T : nat -> nat -> F }.

Section Spec.
Variables (tn na : nat) (genof : nat -> nat -> nat -> nat).

Definition nreads (cs : seq scol) : nat := foldr maxn 0 [seq r.+1 | c <- cs, r <- s_ids c].
Definition hmm_states : seq (nat * nat) := [seq (i, a) | i <- iota 0 tn, a <- iota 0 na].

(* weight of a complete assignment of the hidden variables: beta = one bit per read (global
   bipartition), path = one (transmission value, allele assignment) per column *)
Fixpoint path_weight (prev : option nat) (cs : seq scol) (beta : seq bool) (path : seq (nat * nat)) : F :=
  match cs, path with
  | c :: cs', ia :: path' =>
      fmul (fmul (if prev is Some j then s_T c j ia.1 else f1) (s_W c (pickb (s_ids c) beta) ia.1 ia.2))
           (path_weight (Some ia.1) cs' beta path')
  | _, _ => f1
  end.

(* every complete (transmission, allele-assignment) path with its weight summed over all global
   bipartitions *)
Definition weighted_paths (cs : seq scol) : seq (seq (nat * nat) * F) :=
  [seq (path, fsum [seq path_weight None cs beta path | beta <- bitvecs (nreads cs)])
  | path <- seqs hmm_states (size cs)].
(* joint mass of "individual ind has genotype g at column c" and the total mass: plain sums over all
   (bipartition, transmission path, allele-assignment path) *)
Definition joint_mass (wp : seq (seq (nat * nat) * F)) (c ind g : nat) : F :=
  fsum [seq if genof (nth (0, 0) pw.1 c).1 (nth (0, 0) pw.1 c).2 ind == g then pw.2 else f0 | pw <- wp].
Definition total_mass (wp : seq (seq (nat * nat) * F)) : F := fsum [seq pw.2 | pw <- wp].
Definition posterior_gen (cs : seq scol) : nat -> nat -> nat -> F :=
  let wp := weighted_paths cs in
  let tot := total_mass wp in
  fun c ind g => fdiv (joint_mass wp c ind g) tot.

(* the same posterior with the chain over (transmission, assignment) summed by its own forward and
   backward recursion for each fixed global bipartition (no projections, no scaling); equal to
   posterior_gen (proved), used where the plain sum is too large to evaluate *)
Section Chain.
Variable beta : seq bool.
Definition Lspec (c : scol) (i : nat) : F := fsum [seq s_W c (pickb (s_ids c) beta) i a | a <- iota 0 na].
(* rprefix = reversed list of the columns up to some column; entry i = mass of all paths through them
   that end with transmission value i *)
Fixpoint chain_fwd (rprefix : seq scol) : seq F :=
  if rprefix is c :: rp then
    let prev := chain_fwd rp in
    [seq fmul (Lspec c i)
              (if rp is [::] then f1 else fsum [seq fmul (nth f0 prev j) (s_T c j i) | j <- iota 0 tn])
    | i <- iota 0 tn]
  else nseq tn f1.
(* mass entering column c with value i (before the local factor of c) *)
Definition chain_in (rprefix : seq scol) (c : scol) : seq F :=
  if rprefix is _ :: _ then
    let prev := chain_fwd rprefix in
    [seq fsum [seq fmul (nth f0 prev j) (s_T c j i) | j <- iota 0 tn] | i <- iota 0 tn]
  else nseq tn f1.
(* entry j = mass of all paths through the suffix given the value j in the column before it *)
Fixpoint chain_bwd (suffix : seq scol) : seq F :=
  if suffix is c :: cs then
    let nxt := chain_bwd cs in
    let ln := [seq fmul (Lspec c i) (nth f0 nxt i) | i <- iota 0 tn] in
    [seq fsum [seq fmul (s_T c j i) (nth f0 ln i) | i <- iota 0 tn] | j <- iota 0 tn]
  else nseq tn f1.
End Chain.

(* mass of (transmission value i, allele assignment a) at column c, summed over everything else *)
Definition chain_M (cs : seq scol) (c : nat) : nat -> nat -> F :=
  let col := nth (SCol [::] (fun _ _ _ => f0) (fun _ _ => f0)) cs c in
  let per_beta := [seq (pickb (s_ids col) beta,
                        [seq fmul fb.1 fb.2 | fb <- zip (chain_in beta (rev (take c cs)) col)
                                                        (chain_bwd beta (drop c.+1 cs))])
                  | beta <- bitvecs (nreads cs)] in
  memo_nat2 tn na (fun i a => fsum [seq fmul (nth f0 xb.2 i) (s_W col xb.1 i a) | xb <- per_beta]).
Definition posterior_chain_gen (cs : seq scol) : nat -> nat -> nat -> F :=
  let Ms := [seq chain_M cs c | c <- iota 0 (size cs)] in
  fun c ind g =>
    let M := nth (fun _ _ => f0) Ms c in
    fdiv (fsum [seq fsum [seq M i a | a <- iota 0 na & genof i a ind == g] | i <- iota 0 tn])
         (fsum [seq fsum [seq M i a | a <- iota 0 na] | i <- iota 0 tn]).
(* the same for one column only (the correspondence check evaluates it at the column of highest coverage when
   2^coverage is large) *)
Definition posterior_chain_col (cs : seq scol) (c : nat) : nat -> nat -> F :=
  let M := chain_M cs c in
  fun ind g =>
    fdiv (fsum [seq fsum [seq M i a | a <- iota 0 na & genof i a ind == g] | i <- iota 0 tn])
         (fsum [seq fsum [seq M i a | a <- iota 0 na] | i <- iota 0 tn]).
End Spec.

(* the hidden Markov model of an instance: local factors without memoisation *)
Definition Wspec (P : ped) (c : column) (x : seq bool) (i a : nat) : F :=
  fmul (cost P (h2p P) c i x a) (paa_raw P (geno P) (gcount P) c i a).
Definition spec_cols (I : inst) : seq scol :=
  [seq SCol (col_ids c) (Wspec (i_ped I) c) (ttrans_raw (i_ped I) c) | c <- i_cols I].
Definition posterior_spec (I : inst) (c ind g : nat) : F :=
  posterior_gen (ntrans (i_ped I)) (nassign (i_ped I)) (geno (i_ped I)) (spec_cols I) c ind g.

(* the same with the memoised local factors of the executable model (proved equal for well-formed
   instances); these are the versions the correspondence check evaluates *)
Definition memo_cols (I : inst) : seq scol :=
  let P := i_ped I in
  let ccs := mk_cctxs P (h2p_memo P) (geno_memo P) (gcount_memo P) [::] (i_cols I) in
  [seq SCol (col_ids cc.1) (cc_W cc.2) (cc_T cc.2) | cc <- zip (i_cols I) ccs].
Definition posterior_spec_memo (I : inst) : nat -> nat -> nat -> F :=
  let P := i_ped I in
  let cs := memo_cols I in
  let gm := geno_memo P in
  posterior_gen (ntrans P) (nassign P) gm cs.
Definition posterior_chain_memo (I : inst) : nat -> nat -> nat -> F :=
  let P := i_ped I in
  let cs := memo_cols I in
  let gm := geno_memo P in
  posterior_chain_gen (ntrans P) (nassign P) gm cs.

End Numbers.
