(* C17 — model of `whatshap haplotagphase` (whatshap/cli/haplotagphase.py: run_haplotagphase,
   compute_votes, best_candidate, consensus, length_of_homopolymer), of the part of the shared
   PhasedVcfWriter.write / _remove_existing_phasing / _set_PS (whatshap/vcf.py) that decides which call
   gets which phase, of VcfReader's view of a call (genotype_code, _extract_GT_PS_phase), and of the tag
   semantics of `whatshap haplotag` that the property needs (prepare_haplotag_information's decision for
   one read + attempt_add_phase_information: HP = haplotype index + 1, PS = phase set id).

   One chromosome, any number of samples.  A record is (0-based position, is-SNV flag, "PS is a FORMAT key
   of this record", one call per sample); a call is (GT allele list with None for '.', phased flag, PS
   value).  Reads are what PhasedInputReader.read returns: (PS_tag, HP_tag, [(position, allele,
   quality)]) with -1 for an absent tag.  Python dicts are association lists in insertion order.
   Python exceptions are error values.  The float quotient score/total enters only through the test
   `100 * fraction < gap_threshold`, which is modelled by the exact rational comparison.
   Record-level skip rules (no ALT, duplicate position, multi-ALT with --no-mav) are not modelled.

   The treatment of variants that are already phased in the input is one small switch (`rule`):
   `Cur` is the code as it is (they bypass the filters but are rewritten from the votes, and the shared
   writer unphases them first), `Fixed` the repaired rule (they are put back exactly as they were and the
   votes at their positions are ignored).
   This file contains definitions only (model + executable specification side). *)
From Coq Require Import ZArith List Bool Arith.
Import ListNotations.
Open Scope Z_scope.

(* ------------------------------------------------------------------------------------------ data *)
Inductive err := EKey | EIndex | EZeroDiv.
Inductive res (A : Type) := Ok (a : A) | Err (e : err).
Arguments Ok {A} a.
Arguments Err {A} e.

Record call := mkCall {
  c_gt : list (option Z);       (* GT alleles in file order, None = '.' *)
  c_phased : bool;              (* pysam's call.phased *)
  c_ps : option Z               (* PS value, None = '.' or no PS key *)
}.
Record vrec := mkRec {
  v_pos : Z;                    (* record.start *)
  v_snv : bool;                 (* len(ref) == 1 and len(alt) == 1 *)
  v_pskey : bool;               (* "PS" in record.format *)
  v_calls : list call           (* one per sample column *)
}.
Definition table := list vrec.

Record rvar := mkRV { rv_pos : Z; rv_allele : Z; rv_qual : Z }.
Record read := mkRead { r_ps : Z; r_hp : Z; r_vars : list rvar }.

Record params := mkParams { p_only_indels : bool; p_gap : Z; p_cut : Z }.
Definition default_params := mkParams false 70 10.

Inductive rule := Cur | Fixed.

(* ------------------------------------------------------------------------------- small helpers *)
Definition is_some {A} (o : option A) : bool := match o with Some _ => true | None => false end.

Fixpoint list_eqb (a b : list Z) : bool :=
  match a, b with
  | [], [] => true
  | x :: a', y :: b' => (x =? y) && list_eqb a' b'
  | _, _ => false
  end.
Definition oz_eqb (a b : option Z) : bool :=
  match a, b with
  | None, None => true
  | Some x, Some y => x =? y
  | _, _ => false
  end.
Fixpoint olist_eqb (a b : list (option Z)) : bool :=
  match a, b with
  | [], [] => true
  | x :: a', y :: b' => oz_eqb x y && olist_eqb a' b'
  | _, _ => false
  end.
Definition call_eqb (a b : call) : bool :=
  olist_eqb (c_gt a) (c_gt b) && Bool.eqb (c_phased a) (c_phased b) && oz_eqb (c_ps a) (c_ps b).

(* python's sorted() / the descending order of Genotype.as_vector() *)
Fixpoint insert_asc (x : Z) (l : list Z) : list Z :=
  match l with
  | [] => [x]
  | y :: t => if x <=? y then x :: l else y :: insert_asc x t
  end.
Fixpoint sort_asc (l : list Z) : list Z :=
  match l with [] => [] | x :: t => insert_asc x (sort_asc t) end.
Definition sort_desc (l : list Z) : list Z := rev (sort_asc l).

Fixpoint all_called (g : list (option Z)) : option (list Z) :=
  match g with
  | [] => Some []
  | None :: _ => None
  | Some a :: t => match all_called t with Some zs => Some (a :: zs) | None => None end
  end.

Fixpoint nth_z {A} (l : list A) (i : Z) : option A :=
  match l with
  | [] => None
  | x :: t => if i =? 0 then Some x else if i <? 0 then None else nth_z t (i - 1)
  end.

(* ------------------------------------------------------------------ VcfReader's view of a call *)
(* genotype_code: Genotype([]) if any allele is missing; Genotype.as_vector() is descending *)
Definition gvec (g : list (option Z)) : list Z :=
  match all_called g with Some zs => sort_desc zs | None => [] end.
(* Genotype.is_homozygous(): false for the empty genotype *)
Definition is_hom (v : list Z) : bool :=
  match v with [] => false | x :: t => forallb (Z.eqb x) t end.
(* _extract_GT_PS_phase: `not all(x == GT[0] for x in GT)` on the raw tuple *)
Definition raw_het (g : list (option Z)) : bool :=
  match g with [] => false | x :: t => negb (forallb (oz_eqb x) t) end.

(* VariantCallPhase(block_id, phase): block_id = call.get("PS", 0) *)
Definition phase_info := (option Z * list (option Z))%type.
Definition extract_phase (pskey : bool) (c : call) : option phase_info :=
  if c_phased c && raw_het (c_gt c)
  then Some (if pskey then c_ps c else Some 0, c_gt c)
  else None.

Record ivar := mkIV {
  iv_pos : Z; iv_snv : bool;
  iv_g : list Z;                      (* genotype.as_vector() *)
  iv_phase : option phase_info
}.
Definition dcall := mkCall [] false None.
Definition ivar_of (s : nat) (r : vrec) : ivar :=
  let c := nth s (v_calls r) dcall in
  mkIV (v_pos r) (v_snv r) (gvec (c_gt c)) (extract_phase (v_pskey r) c).
Definition sample_view (t : table) (s : nat) : list ivar := map (ivar_of s) t.

(* the per-position dicts homozygous / change / phased / allele_to_id / id_to_allele are all keyed by
   variant.position of the same table; VcfReader delivers unique positions *)
Fixpoint find_iv (p : Z) (ivs : list ivar) : option ivar :=
  match ivs with
  | [] => None
  | iv :: t => if iv_pos iv =? p then Some iv else find_iv p t
  end.

(* allele_to_id[pos][v] = i for i, v in enumerate(as_vector): the last index wins *)
Fixpoint a2id_from (i : Z) (g : list Z) (a : Z) : option Z :=
  match g with
  | [] => None
  | x :: t => match a2id_from (i + 1) t a with
              | Some j => Some j
              | None => if x =? a then Some i else None
              end
  end.
Definition a2id (g : list Z) (a : Z) : option Z := a2id_from 0 g a.

(* -------------------------------------------------------------------------------- compute_votes *)
Definition vkey := (Z * Z)%type.                   (* (phase set index, haplotype xor allele id) *)
Definition inner := list (vkey * Z).               (* insertion-ordered dict *)
Definition votes := list (Z * inner).              (* insertion-ordered dict keyed by position *)

Definition key_eqb (a b : vkey) : bool := (fst a =? fst b) && (snd a =? snd b).

Fixpoint inner_get (k : vkey) (m : inner) : option Z :=
  match m with
  | [] => None
  | (k', w) :: t => if key_eqb k k' then Some w else inner_get k t
  end.
(* d[k] = v *)
Fixpoint inner_set (k : vkey) (v : Z) (m : inner) : inner :=
  match m with
  | [] => [(k, v)]
  | (k', w) :: t => if key_eqb k k' then (k', v) :: t else (k', w) :: inner_set k v t
  end.
(* d[k] += q ; None = KeyError *)
Fixpoint inner_add (k : vkey) (q : Z) (m : inner) : option inner :=
  match m with
  | [] => None
  | (k', w) :: t =>
      if key_eqb k k' then Some ((k', w + q) :: t)
      else match inner_add k q t with Some t' => Some ((k', w) :: t') | None => None end
  end.
Definition inner_init (ps : Z) (m : inner) : inner :=
  match inner_get (ps, 0) m with
  | Some _ => m
  | None => inner_set (ps, 1) 0 (inner_set (ps, 0) 0 m)
  end.

Fixpoint vget (p : Z) (V : votes) : option inner :=
  match V with
  | [] => None
  | (p', m) :: t => if p =? p' then Some m else vget p t
  end.
Fixpoint vset (p : Z) (m : inner) (V : votes) : votes :=
  match V with
  | [] => [(p, m)]
  | (p', m') :: t => if p =? p' then (p', m) :: t else (p', m') :: vset p m t
  end.

Definition vote_variant (ivs : list ivar) (ps ht : Z) (V : votes) (v : rvar) : res votes :=
  match find_iv (rv_pos v) ivs with
  | None => Err EKey
  | Some iv =>
      if is_hom (iv_g iv) then Ok V
      else
        let m0 := match vget (rv_pos v) V with Some m => m | None => [] end in
        let m1 := inner_init ps m0 in
        match a2id (iv_g iv) (rv_allele v) with
        | None => Err EKey
        | Some i =>
            match inner_add (ps, Z.lxor ht i) (rv_qual v) m1 with
            | None => Err EKey
            | Some m2 => Ok (vset (rv_pos v) m2 V)
            end
        end
  end.

Fixpoint fold_res {A B} (f : A -> B -> res A) (l : list B) (a : A) : res A :=
  match l with
  | [] => Ok a
  | x :: t => match f a x with Ok a' => fold_res f t a' | Err e => Err e end
  end.

Definition vote_read (ivs : list ivar) (V : votes) (r : read) : res votes :=
  let ps := r_ps r - 1 in
  let ht := r_hp r - 1 in
  if (ht <? 0) || (ps <? 0) then Ok V
  else if 1 <? ht then Ok V
  else fold_res (vote_variant ivs ps ht) (r_vars r) V.

Definition compute_votes (ivs : list ivar) (reads : list read) : res votes :=
  fold_res (vote_read ivs) reads [].

(* ------------------------------------------------------------------------------- best_candidate *)
(* lst.sort(key=score, reverse=True); lst[0]: the first entry (in insertion order) of maximal score *)
Fixpoint first_max (m : inner) : option (vkey * Z) :=
  match m with
  | [] => None
  | e :: t => match first_max t with
              | None => Some e
              | Some e' => if snd e <? snd e' then Some e' else Some e
              end
  end.
Definition total (m : inner) : Z := fold_right (fun e acc => snd e + acc) 0 m.

(* (allele id, phase set, score, total); the float q = score / total is represented by the pair *)
Definition best_candidate (m : inner) : res (Z * Z * Z * Z) :=
  match first_max m with
  | None => Err EIndex
  | Some ((ps, a), score) =>
      if total m =? 0 then Err EZeroDiv else Ok (a, ps, score, total m)
  end.

(* 100 * (score / total) < gap, exactly *)
Definition low_fraction (score tot gap : Z) : bool :=
  if 0 <? tot then 100 * score <? gap * tot else gap * tot <? 100 * score.

(* ------------------------------------------------------------------------ length_of_homopolymer *)
Definition ref_at (ref : list Z) (i : Z) : Z := match nth_z ref i with Some b => b | None => -1 end.
Fixpoint hp_loop (ref : list Z) (start step : Z) (threshold : Z) (fuel : nat) (i res : Z) : Z :=
  match fuel with
  | O => res
  | S f =>
      if (res <? threshold) && (0 <=? i) && (i <? Z.of_nat (length ref)) && (ref_at ref i =? ref_at ref start)
      then hp_loop ref start step threshold f (i + step) (res + 1)
      else res
  end.
(* the loop body can succeed at most `threshold` times, so threshold+1 rounds always reach the break *)
Definition length_of_homopolymer (ref : list Z) (start step threshold : Z) : Z :=
  hp_loop ref start step threshold (S (Z.to_nat threshold)) start 0.

Definition in_long_homopolymer (ref : list Z) (pos cut : Z) : bool :=
  (0 <? cut) &&
  (cut <? Z.max (length_of_homopolymer ref (pos + 1) 1 cut) (length_of_homopolymer ref pos (-1) cut)).

(* ------------------------------------------------------------------------------------ consensus *)
Record sv := mkSV { sv_pos : Z; sv_a0 : Z; sv_a1 : Z; sv_q : Z }.   (* the two Variant objects at one position *)
Definition comps := list (Z * Z).                                    (* components dict *)

Fixpoint cget (p : Z) (c : comps) : option Z :=
  match c with
  | [] => None
  | (p', k) :: t => if p =? p' then Some k else cget p t
  end.
Fixpoint cset (p k : Z) (c : comps) : comps :=
  match c with
  | [] => [(p, k)]
  | (p', k') :: t => if p =? p' then (p', k) :: t else (p', k') :: cset p k t
  end.

Definition cstate := (list sv * comps)%type.

(* Fixed rule: what is put back for a variant already phased in the input (diploid, fully called,
   with a phase set id) *)
Definition kept_phase (iv : ivar) : option (Z * Z * Z) :=
  match iv_phase iv with
  | Some (Some b, [Some x0; Some x1]) => Some (b, x0, x1)
  | _ => None
  end.
Definition keep_step (st : cstate) (iv : ivar) : cstate :=
  match kept_phase iv with
  | Some (b, x0, x1) => (fst st ++ [mkSV (iv_pos iv) x0 x1 0], cset (iv_pos iv) (b - 1) (snd st))
  | None => st
  end.

Definition cons_step (rl : rule) (pr : params) (ref : list Z) (ivs : list ivar)
           (st : cstate) (pv : Z * inner) : res cstate :=
  let p := fst pv in
  if (match rl with Fixed => is_some (cget p (snd st)) | Cur => false end) then Ok st
  else
  match best_candidate (snd pv) with
  | Err e => Err e
  | Ok (bi, ps, score, tot) =>
      let cs := cset p ps (snd st) in
      match find_iv p ivs with
      | None => Err EKey
      | Some iv =>
          if negb (is_some (iv_phase iv)) &&
             (low_fraction score tot (p_gap pr)
              || (p_only_indels pr && iv_snv iv)
              || in_long_homopolymer ref p (p_cut pr))
          then Ok (fst st, cs)
          else
            match nth_z (iv_g iv) bi, nth_z (iv_g iv) (1 - bi) with
            | Some a0, Some a1 => Ok (fst st ++ [mkSV p a0 a1 score], cs)
            | _, _ => Err EKey
            end
      end
  end.

(* read.sort(key=position): stable *)
Fixpoint sv_insert (x : sv) (l : list sv) : list sv :=
  match l with
  | [] => [x]
  | y :: t => if sv_pos x <=? sv_pos y then x :: l else y :: sv_insert x t
  end.
Fixpoint sv_sort (l : list sv) : list sv :=
  match l with [] => [] | x :: t => sv_insert x (sv_sort t) end.

Definition consensus (rl : rule) (pr : params) (ref : list Z) (ivs : list ivar) (V : votes) : res cstate :=
  let st0 : cstate := match rl with Fixed => fold_left keep_step ivs ([], []) | Cur => ([], []) end in
  match fold_res (cons_step rl pr ref ivs) V st0 with
  | Ok st => Ok (sv_sort (fst st), snd st)
  | Err e => Err e
  end.

Definition run_sample (rl : rule) (pr : params) (ref : list Z) (ivs : list ivar) (reads : list read)
  : res cstate :=
  match compute_votes ivs reads with
  | Ok V => consensus rl pr ref ivs V
  | Err e => Err e
  end.

(* ------------------------------------------------------------------- PhasedVcfWriter.write (PS) *)
(* sample_phases[sample][position] = (allele0, allele1): a dict filled in super-read order *)
Fixpoint plookup (p : Z) (l : list sv) : option (Z * Z) :=
  match l with
  | [] => None
  | x :: t => match plookup p t with
              | Some r => Some r
              | None => if sv_pos x =? p then Some (sv_a0 x, sv_a1 x) else None
              end
  end.

(* _remove_existing_phasing (both tags): PS (and PQ, HP) of the call are cleared when the record has the
   key, GT loses its phasing and is sorted when fully called.  c_ps is None anyway when the record has no
   PS key, so the PS value of the result is None in every case. *)
Definition remove_phasing (c : call) : call :=
  mkCall (match all_called (c_gt c) with Some zs => map Some (sort_asc zs) | None => c_gt c end)
         false None.

Definition write_call (p : Z) (st : cstate) (c : call) : call :=
  let gt_type := gvec (c_gt c) in
  let ph := plookup p (fst st) in
  let changed :=                         (* "is genotype to be changed?" *)
    match ph with
    | Some (a0, a1) => let g' := sort_desc [a0; a1] in
                       if list_eqb g' gt_type then None else Some g'
    | None => None
    end in
  let gt1 := match changed with Some g' => map Some (sort_asc g') | None => c_gt c end in   (* tuple(sorted(as_vector())) *)
  let is_het := negb (is_hom (match changed with Some g' => g' | None => gt_type end)) in
  match ph, cget p (snd st) with
  | Some (a0, a1), Some k =>
      if is_het then mkCall [Some a0; Some a1] true (Some (k + 1))      (* _set_PS *)
      else mkCall gt1 false None                                       (* call["PS"] = None *)
  | _, _ => mkCall gt1 false None
  end.

Definition phased_here (p : Z) (st : cstate) : bool :=
  is_some (cget p (snd st)) && is_some (plookup p (fst st)).

Definition write_record (sts : list cstate) (r : vrec) : vrec :=
  let cs := map remove_phasing (v_calls r) in
  if existsb (phased_here (v_pos r)) sts
  then mkRec (v_pos r) (v_snv r) true (map (fun sc => write_call (v_pos r) (fst sc) (snd sc)) (combine sts cs))
  else mkRec (v_pos r) (v_snv r) (v_pskey r) cs.

Fixpoint map_res {A B} (f : A -> res B) (l : list A) : res (list B) :=
  match l with
  | [] => Ok []
  | x :: t => match f x with
              | Err e => Err e
              | Ok y => match map_res f t with Ok ys => Ok (y :: ys) | Err e => Err e end
              end
  end.

(* one chromosome; readss = the read set of each sample column in order *)
Definition haplotagphase (rl : rule) (pr : params) (ref : list Z) (t : table) (readss : list (list read))
  : res table :=
  match map_res (fun sr => run_sample rl pr ref (sample_view t (fst sr)) (snd sr))
                (combine (seq 0 (length readss)) readss) with
  | Ok sts => Ok (map (write_record sts) t)
  | Err e => Err e
  end.

(* --------------------------------------------------------- records the reader and the writer skip *)
(* VcfReader._process_single_chromosome leaves out records without ALT, multi-ALT records under
   --no-mav, and a record whose position equals that of the previously accepted record.  The writer
   applies _remove_existing_phasing to every record first and then skips the same records (a duplicate
   position is either skipped by `pos == prev_pos` or finds no phase of its own).  l = (position, number
   of ALT alleles) per record. *)
Fixpoint skip_flags (mav : bool) (prev : option Z) (l : list (Z * Z)) : list bool :=
  match l with
  | [] => []
  | (p, n) :: t =>
      if (n =? 0) || ((1 <? n) && negb mav) then true :: skip_flags mav prev t
      else if oz_eqb prev (Some p) then true :: skip_flags mav prev t
      else false :: skip_flags mav (Some p) t
  end.
Definition strip_record (r : vrec) : vrec :=
  mkRec (v_pos r) (v_snv r) (v_pskey r) (map remove_phasing (v_calls r)).
Fixpoint merge_skipped (fl : list bool) (recs out : table) : table :=
  match fl, recs with
  | true :: fl', r :: recs' => strip_record r :: merge_skipped fl' recs' out
  | false :: fl', _ :: recs' =>
      match out with o :: out' => o :: merge_skipped fl' recs' out' | [] => [] end
  | _, _ => []
  end.
Definition core_records (fl : list bool) (recs : table) : table :=
  map snd (filter (fun x => negb (fst x)) (combine fl recs)).
(* one chromosome of a file: recs = all records, nalts = their ALT counts *)
Definition haplotagphase_file (rl : rule) (pr : params) (ref : list Z) (mav : bool)
           (recs : table) (nalts : list Z) (readss : list (list read)) : res table :=
  let fl := skip_flags mav None (combine (map v_pos recs) nalts) in
  match haplotagphase rl pr ref (core_records fl recs) readss with
  | Ok out => Ok (merge_skipped fl recs out)
  | Err e => Err e
  end.

(* ------------------------------------------------- haplotag: the tags one read receives (diploid) *)
(* variantpos_to_phaseinfo of get_variant_information: phased, heterozygous, block id present *)
Definition phi_of (ivs : list ivar) (p : Z) : option (Z * Z * Z) :=
  match find_iv p ivs with
  | Some iv => if is_hom (iv_g iv) then None else kept_phase iv
  | None => None
  end.

Definition hcosts := list (Z * (Z * Z)).          (* defaultdict phaseset -> [cost0, cost1] *)
Fixpoint hc_add (ps d0 d1 : Z) (m : hcosts) : hcosts :=
  match m with
  | [] => [(ps, (d0, d1))]
  | (ps', (c0, c1)) :: t =>
      if ps =? ps' then (ps', (c0 + d0, c1 + d1)) :: t else (ps', (c0, c1)) :: hc_add ps d0 d1 t
  end.
Definition hc_step (phi : Z -> option (Z * Z * Z)) (m : hcosts) (v : rvar) : hcosts :=
  match phi (rv_pos v) with
  | Some (ps, x0, x1) =>
      hc_add ps (if rv_allele v =? x0 then rv_qual v else 0) (if rv_allele v =? x1 then rv_qual v else 0) m
  | None => m                                      (* the read set of haplotag only has phased variants *)
  end.
(* l.sort(key=max, reverse=True); l[0] *)
Fixpoint hc_best (m : hcosts) : option (Z * (Z * Z)) :=
  match m with
  | [] => None
  | e :: t => match hc_best t with
              | None => Some e
              | Some e' => if Z.max (fst (snd e)) (snd (snd e)) <? Z.max (fst (snd e')) (snd (snd e'))
                           then Some e' else Some e
              end
  end.
(* (haplotype, quality, phaseset) or None = read stays untagged *)
Definition haplotag_decide (phi : Z -> option (Z * Z * Z)) (r : read) : option (Z * Z * Z) :=
  match hc_best (fold_left (hc_step phi) (r_vars r) []) with
  | None => None
  | Some (ps, (c0, c1)) =>
      let ht := if c0 <? c1 then 1 else 0 in       (* stable descending sort of enumerate(scores) *)
      let q := Z.abs (c0 - c1) in
      if q =? 0 then None else Some (ht, q, ps)
  end.
(* attempt_add_phase_information: HP = haplotype + 1, PS = phaseset; an untagged read has neither tag *)
Definition tags_of (d : option (Z * Z * Z)) : Z * Z :=      (* (HP_tag, PS_tag) as core.Read stores them *)
  match d with
  | Some (ht, _, ps) => (ht + 1, ps)
  | None => (-1, -1)
  end.
Definition tagged_by (phi : Z -> option (Z * Z * Z)) (r : read) : bool :=
  let t := tags_of (haplotag_decide phi r) in (r_hp r =? fst t) && (r_ps r =? snd t).

(* error-free read of haplotype h lying in phase set st of the phasing phi *)
Definition error_free_on (phi : Z -> option (Z * Z * Z)) (h st : Z) (r : read) : bool :=
  forallb (fun v => (0 <=? rv_qual v) &&
                    match phi (rv_pos v) with
                    | Some (ps, x0, x1) => (ps =? st) && (rv_allele v =? (if h =? 0 then x0 else x1))
                    | None => true
                    end) (r_vars r).
Definition read_sets (phi : Z -> option (Z * Z * Z)) (r : read) : list Z :=
  flat_map (fun v => match phi (rv_pos v) with Some (ps, _, _) => [ps] | None => [] end) (r_vars r).
Definition error_free (phi : Z -> option (Z * Z * Z)) (r : read) : bool :=
  match read_sets phi r with
  | [] => forallb (fun v => 0 <=? rv_qual v) (r_vars r)
  | st :: _ => error_free_on phi 0 st r || error_free_on phi 1 st r
  end.

(* ------------------------------------------------------------------ specification side (L1, L2) *)
Definition get_call (t : table) (p : Z) (s : nat) : option call :=
  match find (fun r => v_pos r =? p) t with
  | Some r => nth_error (v_calls r) s
  | None => None
  end.

(* property clause 2: variants already phased in the input are never altered.
   inp / out: the calls of one sample before and after haplotagphase, by record *)
Definition prephased_kept (inp out : list call) : bool :=
  (length inp =? length out)%nat &&
  forallb (fun io => if c_phased (fst io) then call_eqb (fst io) (snd io) else true) (combine inp out).

(* classes of calls written with `|` in the input: 0 = what VcfReader recognises as phased with a phase
   set id (heterozygous, diploid, fully called, PS key and value present, record not skipped);
   1 = heterozygous diploid phased call without a PS value; 2 = every other call written with `|`
   (homozygous, on a skipped record, ...) *)
Definition het_pair (g : list (option Z)) : bool :=
  match g with [Some a; Some b] => negb (a =? b) | _ => false end.
Definition prephased_class (skip pskey : bool) (c : call) : Z :=
  if negb skip && het_pair (c_gt c) then (if pskey && is_some (c_ps c) then 0 else 1) else 2.
(* rows: (record skipped, PS key, input call, output call) *)
Definition prephased_kept_class (cls : Z) (rows : list (bool * bool * call * call)) : bool :=
  forallb (fun x => let '(skip, pskey, ci, co) := x in
                    if c_phased ci && (prephased_class skip pskey ci =? cls) then call_eqb ci co else true) rows.

(* property clause 1, per record of one sample: (original call, input call, output call, PS tags of the
   tagged reads that cover the record).  Every variant that haplotagphase phases (output phased, input
   not) has the order of the original phased VCF (where that had a phase) and a phase set carried by
   a covering read. *)
Definition newly_phased (inp out : call) : bool := c_phased out && negb (c_phased inp).
Definition order_one (x : call * call * call * list Z) : bool :=
  let '(orig, inp, out, cover) := x in
  if newly_phased inp out && c_phased orig then olist_eqb (c_gt out) (c_gt orig) else true.
Definition ps_one (x : call * call * call * list Z) : bool :=
  let '(orig, inp, out, cover) := x in
  if newly_phased inp out
  then match c_ps out with Some s => existsb (Z.eqb s) cover | None => false end
  else true.

(* the proviso of the property: no read overlaps two different phase sets (sets = PS of the original
   phased calls a read spans) *)
Definition one_set (sets : list Z) : bool :=
  match sets with [] => true | s :: t => forallb (Z.eqb s) t end.

(* L2 *)
Fixpoint table_eqb (a b : table) : bool :=
  match a, b with
  | [], [] => true
  | x :: a', y :: b' =>
      (v_pos x =? v_pos y) && Bool.eqb (v_pskey x) (v_pskey y) &&
      (length (v_calls x) =? length (v_calls y))%nat &&
      forallb (fun p => call_eqb (fst p) (snd p)) (combine (v_calls x) (v_calls y)) && table_eqb a' b'
  | _, _ => false
  end.
Definition res_table_eqb (r : res table) (t : table) : bool :=
  match r with Ok t' => table_eqb t' t | Err _ => false end.

Fixpoint inner_eqb (a b : inner) : bool :=
  match a, b with
  | [], [] => true
  | (k, w) :: a', (k', w') :: b' => key_eqb k k' && (w =? w') && inner_eqb a' b'
  | _, _ => false
  end.
Fixpoint votes_eqb (a b : votes) : bool :=
  match a, b with
  | [], [] => true
  | (p, m) :: a', (p', m') :: b' => (p =? p') && inner_eqb m m' && votes_eqb a' b'
  | _, _ => false
  end.
Definition sv_eqb (a b : sv) : bool :=
  (sv_pos a =? sv_pos b) && (sv_a0 a =? sv_a0 b) && (sv_a1 a =? sv_a1 b) && (sv_q a =? sv_q b).
Fixpoint svs_eqb (a b : list sv) : bool :=
  match a, b with
  | [], [] => true
  | x :: a', y :: b' => sv_eqb x y && svs_eqb a' b'
  | _, _ => false
  end.
Fixpoint comps_eqb (a b : comps) : bool :=
  match a, b with
  | [], [] => true
  | (p, k) :: a', (p', k') :: b' => (p =? p') && (k =? k') && comps_eqb a' b'
  | _, _ => false
  end.
Definition cstate_eqb (a b : cstate) : bool := svs_eqb (fst a) (fst b) && comps_eqb (snd a) (snd b).

(* ------------------------------------------------------------------- one correspondence case *)
Record hcase := mkCase {
  k_params : params;
  k_ref : list Z;                     (* reference bases of the chromosome as codes *)
  k_orig : table;                     (* the phased VCF that tagged the reads *)
  k_inp : table;                      (* the (partially) unphased VCF given to haplotagphase *)
  k_out : table;                      (* what haplotagphase wrote *)
  k_reads : list (list read);         (* per sample: the reads compute_votes received *)
  k_votes : list votes;               (* per sample: what compute_votes returned *)
  k_cst : list cstate;                (* per sample: what consensus returned *)
  k_cover : list (list (list Z));     (* per sample, per record: PS tags of tagged alignments spanning it *)
  k_rsets : list (list Z);            (* per alignment: PS of the original phased calls it spans *)
  k_mav : bool;                       (* false = --no-mav *)
  k_nalts : list Z;                   (* per record: number of ALT alleles *)
  k_unsel : list nat;                 (* samples whose reads the (last) haplotag run must have left without tags
                                         (not selected by --sample) *)
  k_untouched : bool                  (* chromosome not requested by --chromosome: write_unchanged *)
}.
Definition sample_calls (t : table) (s : nat) : list call := map (fun r => nth s (v_calls r) dcall) t.
Definition same_positions (a b : table) : bool := list_eqb (map v_pos a) (map v_pos b).
Definition k_samples (k : hcase) : list nat := seq 0 (length (k_reads k)).
Definition k_flags (k : hcase) : list bool := skip_flags (k_mav k) None (combine (map v_pos (k_inp k)) (k_nalts k)).
Definition k_core (k : hcase) : table := core_records (k_flags k) (k_inp k).
Definition k_rows (k : hcase) (s : nat) : list (call * call * call * list Z) :=
  combine (combine (combine (sample_calls (k_orig k) s) (sample_calls (k_inp k) s)) (sample_calls (k_out k) s))
          (nth s (k_cover k) []).
Definition k_prows (k : hcase) (s : nat) : list (bool * bool * call * call) :=
  combine (combine (combine (k_flags k) (map v_pskey (k_inp k))) (sample_calls (k_inp k) s)) (sample_calls (k_out k) s).
Definition k_aligned (k : hcase) : bool :=
  same_positions (k_orig k) (k_inp k) && same_positions (k_inp k) (k_out k) &&
  (length (k_nalts k) =? length (k_inp k))%nat &&
  forallb (fun s => (length (nth s (k_cover k) []) =? length (k_inp k))%nat) (k_samples k).

Definition l1_proviso (k : hcase) : bool := forallb one_set (k_rsets k).
Definition k_selected (k : hcase) : list nat :=
  filter (fun s => negb (existsb (Nat.eqb s) (k_unsel k))) (k_samples k).
Definition l1_order (k : hcase) : bool :=
  k_aligned k && (negb (l1_proviso k) || forallb (fun s => forallb order_one (k_rows k s)) (k_selected k)).
Definition l1_ps (k : hcase) : bool :=
  k_aligned k && (negb (l1_proviso k) || forallb (fun s => forallb ps_one (k_rows k s)) (k_selected k)).
(* histories: a sample that the last haplotag run did not select has no tagged read any more (tags of an
   earlier run must have been removed), so haplotagphase phases nothing for it *)
Definition l1_unselected (k : hcase) : bool :=
  k_aligned k &&
  forallb (fun s => forallb (fun io => negb (newly_phased (fst io) (snd io)))
                            (combine (sample_calls (k_inp k) s) (sample_calls (k_out k) s))) (k_unsel k).
(* clause 2, split by the class of the pre-phased call *)
Definition l1_prephased_class (cls : Z) (k : hcase) : bool :=
  k_aligned k && forallb (fun s => prephased_kept_class cls (k_prows k s)) (k_samples k).
Definition l1_prephased (k : hcase) : bool :=
  k_aligned k &&
  forallb (fun s => prephased_kept (sample_calls (k_inp k) s) (sample_calls (k_out k) s)) (k_samples k).

Definition l2_run (rl : rule) (k : hcase) : bool :=
  if k_untouched k then table_eqb (k_inp k) (k_out k) else
  res_table_eqb (haplotagphase_file rl (k_params k) (k_ref k) (k_mav k) (k_inp k) (k_nalts k) (k_reads k)) (k_out k).
Definition l2_votes (k : hcase) : bool :=
  (length (k_votes k) =? length (k_reads k))%nat &&
  forallb (fun s => match compute_votes (sample_view (k_core k) s) (nth s (k_reads k) []) with
                    | Ok V => votes_eqb V (nth s (k_votes k) [])
                    | Err _ => false
                    end) (k_samples k).
(* consensus on the implementation's own votes *)
Definition l2_cons (rl : rule) (k : hcase) : bool :=
  k_untouched k ||
  (length (k_cst k) =? length (k_reads k))%nat &&
  forallb (fun s => match consensus rl (k_params k) (k_ref k) (sample_view (k_core k) s) (nth s (k_votes k) []) with
                    | Ok st => cstate_eqb st (nth s (k_cst k) ([], []))
                    | Err _ => false
                    end) (k_samples k).

(* the premises of the C17 theorems, evaluated on the implementation's own data: the (HP, PS) tags the
   reads carry are those of the haplotag decision model for the phasing of k_orig (L2 for the tag
   semantics), and every read is an error-free copy of one haplotype inside one phase set *)
Definition k_phi (k : hcase) (s : nat) : Z -> option (Z * Z * Z) := phi_of (sample_view (k_orig k) s).
Definition l2_tags (k : hcase) : bool :=
  forallb (fun s => forallb (tagged_by (k_phi k s)) (nth s (k_reads k) [])) (k_selected k) &&
  forallb (fun s => forallb (fun r => (r_hp r =? -1) && (r_ps r =? -1)) (nth s (k_reads k) [])) (k_unsel k).
Definition hyp_error_free (k : hcase) : bool :=
  forallb (fun s => forallb (error_free (k_phi k s)) (nth s (k_reads k) [])) (k_samples k).
Definition hyp_sites (k : hcase) : bool :=
  forallb (fun s =>
    forallb (fun ab => (iv_pos (fst ab) =? iv_pos (snd ab)) && list_eqb (iv_g (fst ab)) (iv_g (snd ab)))
            (combine (sample_view (k_orig k) s) (sample_view (k_inp k) s))) (k_samples k)
  && same_positions (k_orig k) (k_inp k).
